#!/bin/bash
# usage: tools/benign_run.sh   -- applies each behaviour-preserving rewrite in benign/*.json to a scratch
# copy of /repo/src and runs the named checks: every one must exit 0 without a VIOLATION line
cd /verif
for f in benign/*.json; do
  D=$(mktemp -d /tmp/pyvc-benign.XXXXXX); cp -r /repo/src $D/src
  props=$(python3 - "$f" "$D" <<'PY'
import json,sys
spec=json.load(open(sys.argv[1])); root=sys.argv[2]
p=f"{root}/src/someip/{spec['file']}"; s=open(p).read()
for old,new in spec["edits"]:
    if s.count(old)!=1: print("EDIT-ERROR", s.count(old), repr(old[:40])); sys.exit(0)
    s=s.replace(old,new)
open(p,"w").write(s)
print(" ".join(spec["checks"]))
PY
)
  if echo "$props" | grep -q EDIT-ERROR; then echo "$(basename $f): $props"; rm -rf $D; continue; fi
  (cd $D && PYTHONPATH=$D/src /venv/bin/python -c "import someip.sd, someip.service, someip.config, someip.header" ) || echo "$(basename $f): IMPORT-ERROR"
  for P in $props; do
    out=$(PYVC_REPO_SRC=$D/src python3-vt pyvc/check.py $P --no-evidence 2>&1); rc=$?
    echo "$(basename $f) on $P: exit=$rc $(echo "$out" | grep -E "VIOLATION|UNDECIDED|CHECKER-ERROR|BOUNDED-FALLBACK" | grep -v KNOWN | head -2 | cut -c1-200)"
  done
  rm -rf $D
done
