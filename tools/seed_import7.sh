#!/bin/bash
# usage: tools/seed_import7.sh <worktree>  -- verifies each change delivered as <worktree>/out/<PROP>-t<k>/ and
# imports the confirmed ones into /verif/seeded/<PROP>-t<k>/  (round 7 layout: several properties per worktree)
set -u
WT=$1
for d in $WT/out/C*-t*; do
  [ -d "$d" ] || continue
  k=$(basename $d)
  dest=/verif/seeded/$k
  git -C $WT checkout -q -- src
  (cd $WT && PYTHONPATH=$WT/src timeout 300 /venv/bin/python out/$k/demo.py >/dev/null 2>&1); pristine=$?
  if ! git -C $WT apply --check out/$k/patch.diff 2>/dev/null; then echo "$k: patch does not apply"; continue; fi
  git -C $WT apply out/$k/patch.diff
  (cd $WT && PYTHONPATH=$WT/src timeout 300 /venv/bin/python out/$k/demo.py >/dev/null 2>&1); mutant=$?
  tests=$(cd $WT && PYTHONPATH=$WT/src timeout 900 /venv/bin/python -m pytest -q -p no:cacheprovider --timeout=900 tests 2>&1 | tail -1)
  git -C $WT checkout -q -- src
  echo "$k: demo pristine=$pristine mutant=$mutant tests: $tests"
  if [ $pristine -eq 0 ] && [ $mutant -ne 0 ] && echo "$tests" | grep -q "123 passed" && ! echo "$tests" | grep -q failed; then
    mkdir -p $dest
    cp $d/patch.diff $d/demo.py $dest/
    python3 - $d/meta.json $dest/meta.json "$tests" <<'PY'
import json,sys
try: m=json.load(open(sys.argv[1]))
except Exception: m={}
m["confirmed"]={"demo_exit_pristine":0,"demo_exit_mutant":"non-zero","test_suite_with_mutant":sys.argv[3],"how":"tools/seed_import7.sh: applied patch in a scratch worktree, ran demo.py on both trees and the full pytest suite with the mutant"}
json.dump(m,open(sys.argv[2],"w"),indent=1)
PY
    echo "  imported -> $dest"
  else
    echo "  REJECTED"
  fi
done
