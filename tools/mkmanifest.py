#!/usr/bin/env python3
"""Regenerates MANIFEST.json from the table below (kept valid at all times)."""
import json, os
ROOT = os.path.dirname(os.path.dirname(os.path.abspath(__file__)))
props = [json.loads(l) for l in open(os.path.join(ROOT, "properties.jsonl"))]

TRUST = ("pyvc's encoding of Python semantics and its library models (struct, enum, dataclasses, containers, asyncio loop model), "
         "z3/cvc5; spec functions in contracts/ are the oracle (written from the property statement)")

LOOP = ("; event-loop model contracts/looplib.py trusted (FIFO call_soon, timers fire once at their deadline unless cancelled); "
        "induction over the history is the trusted rule applied to the proved step")

CLAIMED = {
    "C19": dict(
        category="proof",
        text="Every matcher/converter of someip.config is proved, for all field values, to refine a spec function written from the statement (wc-formulas); "
             "the wildcard laws are then lemmas over those contracts. All obligations are quantifier-free LIA queries discharged by z3 with no bound on any field.",
        design_ref="DESIGN.md 4/C19",
        technique="contract refinement by symbolic execution of the real AST + SMT (z3); laws as lemmas over contracts",
        note=TRUST + "; options are opaque values, eventgroups an arbitrary int set",
    ),
    "C07": dict(
        category="other",
        text="check_received is proved, for an arbitrary (symbolic) table of previous messages, every sender/channel/flag/16-bit id, to refine the statement's rule and to update exactly its own record; the history claims are induction-step lemmas over that contract. One input region (previous id 0) is a recorded known finding D11, hence level 'other' rather than 'proof'.",
        design_ref="DESIGN.md 4/C07, 5/D11",
        technique="contract refinement by symbolic execution of the real AST over a symbolic map + SMT; history lemmas over the contract",
        note=TRUST + "; sender addresses opaque; known finding D11 excluded by obligation name",
    ),
    "C08": dict(
        category="proof",
        text="assign_outgoing is proved to refine next_session over an arbitrary table (frame: other destinations and the incoming table untouched, table only accessed under the lock, stored ids stay in 1..0xFFFF); the 1..0xFFFF cycle with the flag clearing at the first wrap is an induction (base + step) over the contract, unbounded in the number of sends.",
        design_ref="DESIGN.md 4/C08",
        technique="contract refinement + inductive lemma over the contract, discharged by z3",
        note=TRUST + "; threading.Lock trusted as a mutex; destinations identified by the remote argument",
    ),
    "C01": dict(
        category="proof",
        text="build/parse/_parse_header/_unpack are proved to refine a layout spec written from the SOME/IP specification, for all field values and payloads/suffixes of arbitrary symbolic length; layout (per field offset), round trip with arbitrary trailing bytes and 'struct.error iff a field does not fit' are lemmas over those contracts; the datagram receive loop is verified through a loop contract (arbitrary iteration: exactly the decoded message is delivered once, the loop continues on exactly the rest, variant len(data)).",
        design_ref="DESIGN.md 4/C01",
        technique="contract refinement by symbolic execution of the real AST (byte ropes, linear struct encoding) + SMT; loop contract for the receive loop",
        note=TRUST + "; induction over the number of concatenated messages is the (trusted) induction rule applied to the proved step; message_received of the base class is opaque",
    ),
    "C16": dict(
        category="proof",
        text="SimpleService.message_received is proved, for every request header, registered/unregistered method id, channel and handler behaviour (bytes / None / MalformedMessageError), to send exactly the datagrams of the statement's decision table (first failing check decides), byte-for-byte equal to the spec layout of the reply, to the sender only; send_error_response/send_positive_response/build are under contract.",
        design_ref="DESIGN.md 4/C16",
        technique="contract refinement + decision-table postcondition by symbolic execution of the real AST + SMT",
        note=TRUST + "; handler opaque (three behaviours), transport.sendto recorded, warnings.warn assumed not to raise",
    ),
    "C18": dict(
        category="proof",
        text="For an arbitrary byte stream, SOMEIPHeader.read / SOMEIPReader.read over the (trusted) readexactly contract is proved to return the same message and consume exactly the bytes that SOMEIPHeader.parse consumes, to raise ParseError exactly where parse rejects the header, and asyncio.IncompleteReadError exactly where parse reports a truncated message.",
        design_ref="DESIGN.md 4/C18",
        technique="relational contract (stream reader vs datagram decoder) by symbolic execution of the real coroutine + SMT",
        note=TRUST + "; asyncio.StreamReader.readexactly contract trusted (chunking-independent), induction over messages",
    ),
    "C02": dict(
        category="proof",
        text="Entry codec, every option class (IPv4/IPv6 endpoint/multicast/SD-endpoint, load balancing, unknown types), configuration strings, the SD header split and flag bits are proved against the SOME/IP-SD layout for all field values and lengths (round trip with arbitrary suffix, layout by offset, 'unrepresentable fails or is rejected'); the parse/build loops are verified by loop contracts; _find is proved sound, index-safe and terminating with quantified invariants; assign-then-resolve is proved per entry for arbitrary shared arrays; assign_option_indexes / resolve_options (comprehension contracts: arbitrary entry of arbitrarily many, shared array only grows) and send_sd (arbitrarily many entries) are unbounded as well.",
        design_ref="DESIGN.md 4/C02",
        technique="contract refinement by symbolic execution of the real AST (byte ropes, loop contracts, quantified invariants, comprehension contracts, abstract contracts for loop-bearing callees) + SMT",
        note=TRUST + "; induction over the number of elements is the trusted rule applied to proved init/step/exit obligations; _find completeness not claimed; defect D1 repaired by fix commit feb6620",
    ),
    "C03": dict(
        category="proof",
        text="For buffers of arbitrary length every decoder (real body, callees by contract, loops by loop contract with variants) is proved to exit only by returning (value, suffix of the input) or by ParseError -- UnicodeDecodeError solely through the ASCII decoding of configuration text -- and to terminate; the receive paths (datagram loop, SD message_received with its five-field filter, sd_message_received dispatch, SimpleService.message_received) are proved never to raise and, for a message that is not a decodable SD notification, to leave session table, event loop, transport and entry processing untouched.",
        design_ref="DESIGN.md 4/C03",
        technique="exception-freedom, termination (variants) and frame conditions as postconditions, by symbolic execution of the real AST + SMT",
        note=TRUST + "; format_address/getnameinfo, warnings.warn, logging, listener code assumed not to raise; defect D2 repaired by fix commit 9d60ab5",
    ),
    "C20": dict(
        category="proof",
        text="For every accepted input (arbitrary bytes) decode-encode-decode is proved per element: SOME/IP message (new bytes equal the consumed input), SD entry (raw indexes/counts kept), every option class incl. unknown types/payloads and raw protocol numbers, configuration strings (byte-identical re-encoding), SD flag byte (undefined bits kept); the element loops of the SD header and configuration option are tied to the element contracts by loop contracts.",
        design_ref="DESIGN.md 4/C20",
        technique="contract refinement + canonicalisation lemmas over the contracts, symbolic execution of the real AST + SMT",
        note=TRUST + "; composition over the number of elements by the induction rule",
    ),
    "C09": dict(
        category="proof",
        text="Each TimedStore operation (refresh, stop, stop_all_for_address, stop_all, the firing timer _expired) is proved over the event-loop model with a symbolic clock: refresh arms exactly one timer for now + ttl (none for 0xFFFFFF) and cancels the previous one, explicit removal cancels, a firing timer removes and reports exactly its entry once and immediately, nothing else changes, and the invariant 'every live timer belongs to a present entry holding that handle' is preserved (so a stale timer cannot remove a successor). The store holds arbitrarily many entries (lazily materialised contents: untouched entries are untouched by construction; the loops of stop_all_for_address / stop_all are verified for one arbitrary element by loop contract).",
        design_ref="DESIGN.md 4/C09",
        technique="per-operation postconditions + representation invariant + loop contracts, symbolic execution of the real AST over a shared event-loop model + SMT; unbounded store (lazily materialised dict)",
        note=TRUST + "; event-loop model contracts/looplib.py trusted (timers fire once, at their deadline, never if cancelled); defect D9 repaired by fix commit f08e646",
    ),
    "C05": dict(
        category="other",
        text="Every operation of the discovery part (offer, stop-offer, TTL expiry, reboot of a source, connection loss, watch / unwatch / watch-all) is proved, from an arbitrary consistent state, to tell each concerned listener 'offered' exactly when an entry appears and 'stopped' exactly when it disappears, immediately or by the time the loop is idle, and nothing otherwise -- the inductive step of alternation and truthfulness; the reboot of a message is applied before its offers. The store of known offers, the registered filters, the listeners per filter and the watch-all listeners are all unbounded (lazily materialised; the fan-out loops of _notify_service_offered/_stopped are verified for one arbitrary registration by loop contracts and used by contract at their call sites; is_watching_service's any() over the registrations is evaluated as a quantifier); one schedule is the open known finding D10 and one input region the open finding D11; hence level other.",
        design_ref="DESIGN.md 4/C05, 5/D3 D9 D10",
        technique="monitor invariant preserved by each operation + loop contracts over unbounded store and registrations, callee contracts (modular): symbolic execution of the real AST over the shared event-loop model + SMT",
        note=TRUST + LOOP + "; defects D3/D9 repaired by fix commits f08e646, c4e5f5a; D10, D11 recorded; a listener is registered under one filter",
    ),
    "C06": dict(
        category="proof",
        text="Subscribe / StopSubscribe handling, TTL expiry, subscriber reboot and service stop are proved, from an arbitrary consistent state and for either listener decision, to keep the server-side records truthful and alternating: an accepted Subscribe is recorded with deadline now + TTL and positively acknowledged, a rejected one is neither recorded nor later reported, and a reboot revealed by a message is applied before that message's Subscribe entries. The subscription store is unbounded (lazily materialised; its mass-release loops by loop contract), a Subscribe entry carries arbitrarily many options (from_subscribe_entry verified element-wise by a loop contract and used by contract: the endpoint set is part of the identity, whatever the number of options), one to three instances per announcer as in the property's quantifier.",
        design_ref="DESIGN.md 4/C06, 5/D4",
        technique="monitor invariant preserved by each operation + operation frames: symbolic execution of the real AST over the shared event-loop model + SMT; loop contracts for the store walks and the option loop",
        note=TRUST + LOOP + "; defect D4 repaired by fix commit c4e5f5a",
    ),
    "C11": dict(
        category="proof",
        text="For every Subscribe entry (all ids, counters, TTLs, arbitrarily many endpoint and other options), one to three instances (at most one matching: the statement's premise), instance state, listener decision and prior state: exactly one SubscribeAck is queued, for the sender only, echoing service, instance, major version, eventgroup id and counter, with the requested TTL iff a running matching instance accepted and TTL 0 otherwise; StopSubscribe of a known eventgroup is unanswered; multicast Subscribes are dropped by the dispatcher; the queued answer reaches the wire exactly once, to its destination only (the send-queue contract, also C15).",
        design_ref="DESIGN.md 4/C11",
        technique="postconditions and frames by symbolic execution of the real AST + SMT; from_subscribe_entry by loop contract / callee contract",
        note=TRUST + LOOP,
    ),
    "C12": dict(
        category="proof",
        text="handle_findservice is proved to schedule exactly one offer per ready instance whose description matches the request (wildcards on the request side), to the requester only, via call_soon for unicast and via call_later with a delay inside the request-response window for multicast, and nothing else; _send_offer queues the service's offer entry with the configured TTL for exactly that destination, and nothing once the instance is stopped. One to three instances -- the property's own quantifier -- each with symbolic ids, versions, options, readiness and running state; every wildcard combination of the request, both channels, all delay windows symbolic.",
        design_ref="DESIGN.md 4/C12",
        technique="postconditions and frames over the event-loop model by symbolic execution of the real AST + SMT (one to three instances enumerated: the property's own bound)",
        note=TRUST + LOOP + "; random.uniform axiom; defects D7/D8 repaired by fix commits 48521a4, b7551db",
    ),
    "C15": dict(
        category="proof",
        text="queue_send and SendCollector are proved over an arbitrary queue state: zero timeout sends at once alone; otherwise the entry joins the open collector of exactly its destination behind earlier entries (a new collector with one timer if none is open), whose window closes no later than timeout after queueing; the closing window sends everything queued once, in queueing order, to the collector's destination and refuses later entries; stop()/connection_lost() keep pending collectors. An open collector holds arbitrarily many earlier entries (list with symbolic prefix).",
        design_ref="DESIGN.md 4/C15",
        technique="postconditions over the event-loop model by symbolic execution of the real AST + SMT; unbounded queue contents",
        note=TRUST + LOOP,
    ),
    "C10": dict(
        category="other",
        text="The offer task is verified as a trace of sleeps and sends for every timing configuration and arbitrarily many repetitions: initial delay inside the window, repetitions at doubling delays (loop contract: an arbitrary repetition k waits 2**k * base and offers once; the loop is left after exactly REPETITIONS_MAX), one offer per cyclic period (loop contract), each to the multicast group with the configured TTL and the service's entry; cancelled at any await it sends nothing more except, for a cyclic instance after the first offer, exactly one StopOffer. start/stop/announce/stop-announce/announcer stop (idempotent) and 'nothing follows a StopOffer' (_send_offer after stop, readiness cleared by stop) are postconditions. One helper is the open known finding D6, hence level other.",
        design_ref="DESIGN.md 4/C10, 5/D5-D8",
        technique="coroutine as sequential procedure (sleep = clock advance or cancellation point) + loop contract, symbolic execution of the real AST over the event-loop model + SMT",
        note=TRUST + LOOP + "; random.uniform axiom; defects D5/D7/D8 repaired by fix commits 6818820, 48521a4, b7551db; D6 recorded",
    ),
    "C13": dict(
        category="proof",
        text="The find task is verified as a trace for every timing configuration and arbitrarily many repetitions (loop contract: repetition k waits 2**k * base, ends the task if nothing is missing, otherwise sends its round; left after exactly REPETITIONS_MAX; registrations create no task) while the set of known offers changes arbitrarily during every wait: each round sends, to the multicast group, FindService entries for exactly the watched services with no matching live offer at that instant (ids and wildcards copied, configured TTL), delays double, at most 1 + repetitions rounds, and a round with nothing missing ends the task for good. The number of watched filters is unbounded (comprehension contract of _build_entries: an arbitrary watched filter contributes its entry iff it has no live offer; the round's list is what is sent); _service_found is proved over a store of arbitrarily many offers from arbitrarily many sources (any() as a quantifier: true has a stored, matching witness; false holds for an arbitrary stored offer); the truthfulness of the known-offer store is C05's handle_offer / expiry obligations.",
        design_ref="DESIGN.md 4/C13",
        technique="coroutine as sequential procedure with interference at every await, comprehension contract for the per-round entry list, quantifier semantics of any() over lazily materialised stores, symbolic execution of the real AST + SMT",
        note=TRUST + LOOP + "; random.uniform axiom; a filtered list comprehension is empty iff no element passes the filter, any() is true iff some element is (semantics of comprehensions / any)",
    ),
    "C14": dict(
        category="other",
        text="Against model servers that apply the sent Subscribe/StopSubscribe entries in order, every subscriber operation (subscribe, stop-subscribe, both in one loop iteration, start with the refresh task's arbitrary iteration, stop, connection loss) is proved to keep 'each server holds exactly the eventgroups requested from it while the subscriber runs, none afterwards'; every Subscribe carries the ids, the configured TTL and one endpoint option with the local address, port and protocol, goes only to its server, and the refresh round recurs exactly one interval later. The loops and the comprehension over the requested set are additionally verified element-wise for arbitrarily many eventgroups and servers (_group_entries by a loop contract with a havocked accumulator: an arbitrary pair is appended to the list of exactly its server; refresh round and stop: an arbitrary (server, eventgroups) group is sent / queued exactly once as collected; _send_subscribe: an arbitrary eventgroup yields exactly its entry with the given TTL, one message to that server). The end-to-end server model runs on a requested set of bounded shape and the local endpoints are representative, hence level other.",
        design_ref="DESIGN.md 4/C14",
        technique="monitor invariant preserved by each operation (bounded server model) + element-wise loop / comprehension contracts over an unbounded requested set, symbolic execution of the real AST over the event-loop model + SMT",
        note=TRUST + LOOP + "; getnameinfo evaluated on four concrete local endpoints; composition of the element-wise contracts into the end-to-end statement is the trusted induction over the elements",
    ),
    "C17": dict(
        category="proof",
        text="_notify_single is proved to send one datagram to the subscriber's address that is byte-for-byte the concatenation of the spec-layout notifications (service id, 0x8000|event id, major version as interface version, NOTIFICATION, current value) with per-destination session ids continuing 1..0xFFFF; subscribe sends exactly the initial notifications to the new endpoint, explicit and cyclic rounds reach each current subscriber exactly once and nobody else, the has-clients flag is set exactly while somebody is subscribed, and subscriptions naming other than one endpoint or an unknown eventgroup are refused. The eventgroup has arbitrarily many events and subscribed endpoints (lazily materialised dict / set; notification loop, fan-out comprehension and cyclic loop by loop / comprehension contracts).",
        design_ref="DESIGN.md 4/C17",
        technique="coroutines as sequential procedures + loop / comprehension contracts over unbounded state, byte-level postconditions by symbolic execution of the real AST + SMT",
        note=TRUST + LOOP + "; getaddrinfo for numeric hosts modelled in contracts/looplib.py",
    ),
}

NA_REASONS = {
    "C04": "liveness/convergence of two interacting stacks over unbounded fault schedules: no per-function contract states 'eventually reported'; needs simulation or model checking, a different family (DESIGN.md 6)",
}

def main():
    checks = []
    for pid, c in sorted(CLAIMED.items()):
        checks.append({
            "property_id": pid,
            "quick_cmd": f"python3-vt pyvc/check.py {pid} --tier quick",
            "thorough_cmd": f"python3-vt pyvc/check.py {pid} --tier thorough",
            "evidence_file": f"/verif/evidence/{pid}.json",
            "replay_cmd_template": "PYTHONPATH=/verif:/repo/src /venv/bin/python -m pyvc.native --file {path}",
            "engine": "pyvc",
            "level_claimed": {"category": c["category"], "text": c["text"], "design_ref": c["design_ref"]},
            "level_note": c["note"],
            "technique": c["technique"],
        })
    na = []
    for p in props:
        if p["id"] in CLAIMED:
            continue
        na.append({"property_id": p["id"], "reason": NA_REASONS.get(p["id"], "check not built yet (framework under construction); see DESIGN.md section 4")})
    m = {
        "version": 1,
        "setup_cmd": "python3-vt -m compileall -q pyvc contracts",
        "hooks": {
            "guard": "PYSOMEIP_VERIF",
            "enable": "none needed: contracts are sidecar files under /verif/contracts; /repo is read from its working tree (PYVC_REPO_SRC overrides the source root) and is not instrumented",
            "baseline_off_cmd": "cd /repo && /venv/bin/python -m pytest -ra -q -p no:cacheprovider --timeout=900",
            "source_commits": [],
            "add_only": True,
        },
        "engines": [{
            "name": "pyvc", "path": "pyvc/", "serves_properties": sorted(CLAIMED),
            "kind_free_text": "own verification-condition generator: symbolic interpreter of the real Python AST of /repo/src/someip re-read on every run, sidecar contracts (spec functions, loop invariants, ghost event loop), obligations discharged by z3 5.1 with cvc5 1.0.3 for unknowns; counterexamples replayed natively on the real package",
        }],
        "checks": checks,
        "not_applicable": na,
        "notes": "exit codes: 0 held, 1 violation (replayed), 2 undecided, 3 checker error. Known findings in known_findings.json.",
    }
    json.dump(m, open(os.path.join(ROOT, "MANIFEST.json"), "w"), indent=1)

if __name__ == "__main__":
    main()
