#!/bin/bash
# runs every seeded change against the check of its property (plus extra properties given in
# seeded/<id>/meta.json "also") and writes seeded/RESULTS.md
cd /verif
out=seeded/RESULTS.md
echo "# Seeded changes vs. checks" > $out.tmp
echo "" >> $out.tmp
echo "| seed | property | summary | exit | first failing obligation |" >> $out.tmp
echo "|---|---|---|---|---|" >> $out.tmp
for d in seeded/C*-m*; do
  s=$(basename $d)
  p=${s%%-*}
  props=$(python3 -c "import json;m=json.load(open('$d/meta.json'));print(' '.join([m.get('property','$p')]+m.get('also',[])))" 2>/dev/null || echo $p)
  summary=$(python3 -c "import json;print(json.load(open('$d/meta.json')).get('summary','')[:110].replace('|','/'))" 2>/dev/null)
  if grep -q '"obsolete"' $d/meta.json 2>/dev/null; then
    echo "| $s | $p | $summary | - | obsolete: patch no longer applies after a fix: commit |" >> $out.tmp; continue
  fi
  for q in $props; do
    res=$(timeout 1500 tools/seed_run.sh $s $q 2>&1)
    rc=$(echo "$res" | grep -o "exit=[0-9]*" | head -1)
    first=$(echo "$res" | grep -E "VIOLATION|CHECKER-ERROR|PATCH-FAILED|UNDECIDED" | head -1 | sed 's/.*replay=\/verif\/replays\///' | cut -c1-120)
    echo "| $s | $q | $summary | ${rc#exit=} | $first |" >> $out.tmp
  done
done
mv $out.tmp $out
