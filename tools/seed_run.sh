#!/bin/bash
# usage: tools/seed_run.sh <seed id, e.g. C16-m1> [PROP ...]  -- runs checks on a scratch copy of /repo/src with the seeded patch
set -u
S=$1; shift
D=$(mktemp -d /tmp/pyvc-seed.XXXXXX)
mkdir -p $D && cp -r /repo/src $D/src
if ! patch -s -p1 -d $D < /verif/seeded/$S/patch.diff; then echo "PATCH-FAILED $S"; rm -rf $D; exit 9; fi
PROPS="$@"; [ -z "$PROPS" ] && PROPS=${S%%-*}
for P in $PROPS; do
  out=$(PYVC_REPO_SRC=$D/src python3-vt /verif/pyvc/check.py $P --no-evidence 2>&1); rc=$?
  echo "== $S on $P: exit=$rc"
  echo "$out" | grep -E "VIOLATION|CHECKER-ERROR|UNDECIDED|KNOWN" | head -8
done
rm -rf $D
