"""Models of Python built-ins and of the standard-library pieces the repository uses.

Everything here is part of the trusted base (DESIGN.md section 7, item 2); the thorough
tier cross-checks these models against CPython (pyvc/crosscheck.py).
"""
from __future__ import annotations

import ast
import socket as _socket

import z3

from . import ropes
from .engine import OutsideSubset, PathAbort, VCError
from .objects import (
    BodyOf,
    BoundMethod,
    BuiltinFn,
    BuiltinMethod,
    ClassMethodV,
    ClassV,
    CoroV,
    DCField,
    Env,
    FieldSpec,
    FuncV,
    GenV,
    ModuleV,
    ObjV,
    Outcome,
    PropertyV,
    StaticMethodV,
    StructV,
    SuperV,
    TypingV,
)
from .values import (
    BytearrayV,
    DictV,
    EnumV,
    ListV,
    MapV,
    ObjSort,
    Opaque,
    SBool,
    SBytes,
    SeqV,
    SetV,
    SInt,
    SReal,
    SStr,
    CompDictV,
    LazyDictV,
    LazySetV,
    SymListV,
    SymSet,
    Unit,
    View,
    as_const,
    bool_term,
    deref,
    int_term,
    is_intlike,
    mk_bool,
    mk_int,
    zint,
)


class StarSeq:
    """*args of symbolic length passed to asyncio.gather"""

    __slots__ = ("seq",)

    def __init__(self, seq):
        self.seq = seq


class RangeV:
    __slots__ = ("lo", "hi", "step")

    def __init__(self, lo, hi, step=1):
        self.lo, self.hi, self.step = lo, hi, step


class LoggerV:
    pass


class LockV:
    __slots__ = ("held", "ident")

    def __init__(self):
        self.held = False


class ItemsView:
    """snapshot-free view object for dict.items()/keys()/values()"""

    __slots__ = ("d", "kind")

    def __init__(self, d, kind):
        self.d = d
        self.kind = kind


# ========================================================================== builtins


def _exc_tree():
    return [
        ("BaseException", []),
        ("Exception", ["BaseException"]),
        ("ArithmeticError", ["Exception"]),
        ("ZeroDivisionError", ["ArithmeticError"]),
        ("OverflowError", ["ArithmeticError"]),
        ("AssertionError", ["Exception"]),
        ("AttributeError", ["Exception"]),
        ("EOFError", ["Exception"]),
        ("LookupError", ["Exception"]),
        ("IndexError", ["LookupError"]),
        ("KeyError", ["LookupError"]),
        ("NameError", ["Exception"]),
        ("OSError", ["Exception"]),
        ("RuntimeError", ["Exception"]),
        ("NotImplementedError", ["RuntimeError"]),
        ("StopIteration", ["Exception"]),
        ("TypeError", ["Exception"]),
        ("ValueError", ["Exception"]),
        ("UnicodeError", ["ValueError"]),
        ("UnicodeDecodeError", ["UnicodeError"]),
        ("UnicodeEncodeError", ["UnicodeError"]),
        ("FrozenInstanceError", ["AttributeError"]),
        ("StructError", ["Exception"]),  # struct.error
        ("CancelledError", ["BaseException"]),  # asyncio.CancelledError
        ("AsyncIncompleteReadError", ["EOFError"]),  # asyncio.IncompleteReadError
        ("AddressValueError", ["ValueError"]),
        ("GaiError", ["OSError"]),
        ("Warning", ["Exception"]),
    ]


BUILTIN_TYPES = ["object", "int", "bool", "float", "str", "bytes", "bytearray", "tuple", "list", "dict", "set", "frozenset", "type", "NoneType"]


def make_builtins(I):
    b = {}
    for name, bases in _exc_tree():
        b[name] = ClassV(name, [b[x] for x in bases], {}, builtin=True)
    for t in BUILTIN_TYPES:
        b[t] = ClassV(t, [], {}, builtin=True)

    def reg(name):
        def deco(fn):
            b[name] = BuiltinFn(name, fn)
            return fn

        return deco

    @reg("len")
    def _len(I, args, kw, node):
        return length(I, args[0], node)

    @reg("isinstance")
    def _isinstance(I, args, kw, node):
        return isinst(I, args[0], args[1])

    @reg("issubclass")
    def _issubclass(I, args, kw, node):
        c, t = args
        if isinstance(t, tuple):
            return any(c.issubclass(x) for x in t)
        return c.issubclass(t)

    @reg("any")
    def _any(I, args, kw, node):
        from . import quant

        if quant.is_symbolic_source(I, args[0]):
            return quant.quantified(I, args[0], True, node)
        for x in iterate(I, args[0], node):
            if I.truthy(x, node):
                return True
        return False

    @reg("all")
    def _all(I, args, kw, node):
        from . import quant

        if quant.is_symbolic_source(I, args[0]):
            return quant.quantified(I, args[0], False, node)
        for x in iterate(I, args[0], node):
            if not I.truthy(x, node):
                return False
        return True

    @reg("range")
    def _range(I, args, kw, node):
        if len(args) == 1:
            return RangeV(0, args[0])
        if len(args) == 2:
            return RangeV(args[0], args[1])
        return RangeV(args[0], args[1], args[2])

    @reg("enumerate")
    def _enumerate(I, args, kw, node):
        start = args[1] if len(args) > 1 else kw.get("start", 0)
        return ListV([(i + start, x) for i, x in enumerate(iterate(I, args[0], node))])

    @reg("zip")
    def _zip(I, args, kw, node):
        its = [list(iterate(I, a, node)) for a in args]
        return ListV([tuple(t) for t in zip(*its)])

    @reg("next")
    def _next(I, args, kw, node):
        for x in iterate(I, args[0], node):
            return x
        if len(args) > 1:
            return args[1]
        I.throw("StopIteration", node=node)

    @reg("iter")
    def _iter(I, args, kw, node):
        return args[0]

    @reg("min")
    def _min(I, args, kw, node):
        xs = list(iterate(I, args[0], node)) if len(args) == 1 else list(args)
        r = xs[0]
        for x in xs[1:]:
            if I.truthy(compare(I, "Lt", x, r, node), node):
                r = x
        return r

    @reg("max")
    def _max(I, args, kw, node):
        xs = list(iterate(I, args[0], node)) if len(args) == 1 else list(args)
        r = xs[0]
        for x in xs[1:]:
            if I.truthy(compare(I, "Gt", x, r, node), node):
                r = x
        return r

    @reg("sum")
    def _sum(I, args, kw, node):
        r = args[1] if len(args) > 1 else 0
        for x in iterate(I, args[0], node):
            r = binop(I, "Add", r, x, node)
        return r

    @reg("abs")
    def _abs(I, args, kw, node):
        x = args[0]
        if isinstance(x, (int, float)):
            return abs(x)
        if I.truthy(compare(I, "Lt", x, 0, node), node):
            return unop(I, "USub", x, node)
        return x

    @reg("repr")
    def _repr(I, args, kw, node):
        return "<repr>"

    @reg("print")
    def _print(I, args, kw, node):
        return None

    @reg("id")
    def _id(I, args, kw, node):
        return id(args[0])

    @reg("hash")
    def _hash(I, args, kw, node):
        return 0

    @reg("getattr")
    def _getattr(I, args, kw, node):
        if len(args) == 3:
            try:
                return I.getattr(args[0], args[1], node)
            except Exception as exc:
                from .interp import RaiseSig

                if isinstance(exc, (RaiseSig, OutsideSubset)):
                    return args[2]
                raise
        return I.getattr(args[0], args[1], node)

    @reg("hasattr")
    def _hasattr(I, args, kw, node):
        from .interp import RaiseSig

        try:
            I.getattr(args[0], args[1], node)
            return True
        except (RaiseSig, OutsideSubset):
            return False

    @reg("setattr")
    def _setattr(I, args, kw, node):
        I.setattr(args[0], args[1], args[2], node)

    @reg("callable")
    def _callable(I, args, kw, node):
        return isinstance(args[0], (FuncV, BoundMethod, BuiltinFn, ClassV, BuiltinMethod))

    @reg("property")
    def _property(I, args, kw, node):
        return PropertyV(args[0])

    @reg("classmethod")
    def _classmethod(I, args, kw, node):
        return ClassMethodV(args[0])

    @reg("staticmethod")
    def _staticmethod(I, args, kw, node):
        return StaticMethodV(args[0])

    @reg("sorted")
    def _sorted(I, args, kw, node):
        xs = list(iterate(I, args[0], node))
        if all(isinstance(x, (int, str)) for x in xs):
            return ListV(sorted(xs))
        raise OutsideSubset("sorted of symbolic values")

    @reg("reversed")
    def _reversed(I, args, kw, node):
        return ListV(list(iterate(I, args[0], node))[::-1])

    b["NotImplemented"] = NotImplemented
    b["Ellipsis"] = None
    b["__debug__"] = True
    b["True"] = True
    b["False"] = False
    b["None"] = None
    return b


# ========================================================================== type tests


def isinst(I, v, cls):
    v = deref(v)
    if isinstance(cls, tuple):
        rs = [isinst(I, v, c) for c in cls]
        if any(r is True for r in rs):
            return True
        sym = [r for r in rs if not isinstance(r, bool)]
        if sym:
            return mk_bool(z3.Or([r.t for r in sym]))
        return False
    if isinstance(cls, TypingV):
        return True
    if not isinstance(cls, ClassV):
        raise OutsideSubset(f"isinstance against {cls!r}")
    name = cls.name if cls.builtin else None
    if name == "object":
        return True
    if isinstance(v, ObjV):
        return cls in v.cls.mro
    if isinstance(v, Opaque):
        tbl = v.attrs.get("__isinstance__")
        if tbl is not None:
            for c, r in tbl:
                if c is cls:
                    return r
        return False
    if isinstance(v, bool) or isinstance(v, SBool):
        return name in ("bool", "int")
    if isinstance(v, (int, SInt)):
        return name == "int"
    if isinstance(v, EnumV):
        return cls in v.cls.mro or name == "int"
    if isinstance(v, (float, SReal)):
        return name == "float"
    if isinstance(v, (str, SStr)):
        return name == "str"
    if isinstance(v, SBytes):
        return name == "bytes"
    if isinstance(v, BytearrayV):
        return name == "bytearray"
    if isinstance(v, tuple):
        return name == "tuple"
    if isinstance(v, SeqV):
        return name == ("tuple" if v.kind == "tuple" else "list")
    if isinstance(v, SymListV):
        return name == "list"
    if isinstance(v, ListV):
        return name == "list"
    if isinstance(v, (DictV, MapV, LazyDictV)):
        return name == "dict"
    if isinstance(v, SetV):
        return name == ("frozenset" if v.frozen else "set")
    if isinstance(v, LazySetV):
        return name == "set"
    if v is None:
        return name == "NoneType"
    if isinstance(v, ClassV):
        return name == "type"
    return False


# ========================================================================== length / iteration


def as_rope(v):
    if isinstance(v, SBytes):
        return v
    if isinstance(v, BytearrayV):
        return v.rope
    if isinstance(v, SStr):
        return v.rope
    return None


def length(I, v, node=None):
    v = deref(v)
    if isinstance(v, (str, tuple)):
        return len(v)
    if isinstance(v, ListV):
        return len(v.items)
    if isinstance(v, SetV):
        return len(v.items)
    if isinstance(v, DictV):
        return len(v.pairs)
    r = as_rope(v)
    if r is not None:
        return mk_int(r.length())
    if isinstance(v, SeqV):
        return mk_int(v.n)
    if isinstance(v, SymListV):
        n = v.prefix.n
        for it in v.items:
            n = ropes.zadd(n, it.n if isinstance(it, SeqV) else 1)
        return mk_int(as_const(n))
    if isinstance(v, RangeV):
        lo, hi = int_term(v.lo), int_term(v.hi)
        if v.step != 1:
            raise OutsideSubset("len of a range with a step")
        d = as_const(ropes.zsub(hi, lo))
        if isinstance(d, int):
            return max(d, 0)
        return mk_int(z3.If(zint(d) > 0, zint(d), z3.IntVal(0)))
    if isinstance(v, ItemsView):
        return length(I, v.d, node)
    if isinstance(v, LazySetV):
        v = v.d
    if isinstance(v, LazyDictV):
        from . import lazydict

        return lazydict.length(I, v)
    if isinstance(v, ObjV):
        f, _ = v.cls.lookup("__len__")
        if f is not None:
            return I.call(BoundMethod(f, v), [], {}, node)
    if isinstance(v, MapV):
        raise OutsideSubset("len() of a symbolic map")
    I.throw("TypeError", f"object of type {type(v).__name__} has no len()", node=node)


def iterate(I, v, node=None):
    """python generator over the elements of an interpreter value"""
    v = deref(v)
    if isinstance(v, ClassV) and v.is_enum:
        # iterating an Enum class yields its members in definition order (aliases excluded)
        seen = []
        for m in v.enum_members.values():
            if not any(m is x for x in seen):
                seen.append(m)
        yield from seen
        return
    if isinstance(v, tuple):
        yield from v
        return
    if isinstance(v, ListV):
        i = 0
        while i < len(v.items):
            yield v.items[i]
            i += 1
        return
    if isinstance(v, SetV):
        yield from list(v.items)
        return
    if isinstance(v, DictV):
        for p in list(v.pairs):
            yield p[0]
        return
    if isinstance(v, LazySetV):
        v = v.d
    if isinstance(v, LazyDictV):
        v = ItemsView(v, "keys")
    if isinstance(v, ItemsView) and isinstance(v.d, LazyDictV):
        from . import lazydict

        seq = lazydict.items_seq(I, v.d, v.kind, node)
        if isinstance(seq, list):
            yield from seq
            return
        raise OutsideSubset(f"iteration over {v.kind}() of a dict with unbounded contents without a loop contract at {I.where(node)}")
    if isinstance(v, ItemsView):
        d = v.d
        if isinstance(d, DictV):
            for p in list(d.pairs):
                if v.kind == "items":
                    yield (p[0], p[1])
                elif v.kind == "keys":
                    yield p[0]
                else:
                    yield p[1]
            return
        raise OutsideSubset(f"iteration over {v.kind}() of a symbolic map without a loop contract at {I.where(node)}")
    if isinstance(v, RangeV):
        lo, hi, step = v.lo, v.hi, v.step
        if isinstance(lo, int) and isinstance(hi, int) and isinstance(step, int):
            yield from range(lo, hi, step)
            return
        raise OutsideSubset(f"range with symbolic bounds without a loop contract at {I.where(node)}")
    if isinstance(v, GenV):
        yield from I.comp_values(v.node.elt, v.node.generators, v.env)
        return
    r = as_rope(v)
    if r is not None and not isinstance(v, SStr):
        n = r.length()
        if isinstance(n, int):
            for b in ropes.units(I.ctx, r, n):
                yield mk_int(b)
            return
        raise OutsideSubset("iteration over bytes of symbolic length")
    if isinstance(v, str):
        yield from v
        return
    if isinstance(v, SeqV):
        if isinstance(v.n, int):
            for i in range(v.n):
                yield v.at(i)
            return
        raise OutsideSubset(f"iteration over a sequence of symbolic length without a loop contract at {I.where(node)}")
    if isinstance(v, MapV):
        raise OutsideSubset(f"iteration over a symbolic map without a loop contract at {I.where(node)}")
    if isinstance(v, SymListV):
        seq = symlist_as_seq(I, v)
        if isinstance(seq.n, int):
            for i in range(seq.n):
                yield seq.at(i)
            return
        raise OutsideSubset(f"iteration over a list with a symbolic part without a loop contract at {I.where(node)}")
    if isinstance(v, (CompDictV, LazyDictV, Opaque, ObjV, FuncV, ClassV)) or v is None or isinstance(v, (int, SInt, SBool, float)):
        I.throw("TypeError", f"{type(v).__name__} object is not iterable", node=node)
    raise OutsideSubset(f"iteration over {type(v).__name__} at {I.where(node)}")


def unpack_iterable(I, v, n, node=None):
    v = deref(v)
    if isinstance(v, tuple):
        items = list(v)
    elif isinstance(v, SeqV) and not isinstance(v.n, int):
        # tuple of symbolic length: unpacking succeeds iff n == len
        if I.ctx.decide(zint(v.n) == n):
            return [v.at(i) for i in range(n)]
        I.throw("ValueError", "wrong number of values to unpack", node=node)
    else:
        items = list(iterate(I, v, node))
    if len(items) != n:
        I.throw("ValueError", f"expected {n} values to unpack, got {len(items)}", node=node)
    return items


# ========================================================================== equality / comparison


def eq(I, a, b, node=None):
    """python == as bool | z3 Bool"""
    a, b = deref(a), deref(b)
    if a is None or b is None:
        if isinstance(a, Opaque) or isinstance(b, Opaque):
            o = a if isinstance(a, Opaque) else b
            isnone = o.attrs.get("__is_none__")
            if isnone is not None:
                return isnone.t if isinstance(isnone, SBool) else isnone
        return a is b
    if is_intlike(a) and is_intlike(b):
        ta, tb = int_term(a), int_term(b)
        if isinstance(ta, int) and isinstance(tb, int):
            return ta == tb
        return z3.simplify(zint(ta) == zint(tb))
    if isinstance(a, (float, SReal)) or isinstance(b, (float, SReal)):
        if isinstance(a, (int, float)) and isinstance(b, (int, float)):
            return a == b
        return real_term(a) == real_term(b)
    if isinstance(a, str) and isinstance(b, str):
        return a == b
    ra, rb = as_rope(a), as_rope(b)
    if ra is not None and rb is not None:
        if isinstance(a, SStr) != isinstance(b, SStr):
            return False
        return ropes.eq_formula(I.ctx, ra, rb)
    if isinstance(a, SStr) and isinstance(b, str):
        return ropes.eq_formula(I.ctx, a.rope, SBytes.from_concrete(b.encode("latin-1")))
    if isinstance(b, SStr) and isinstance(a, str):
        return eq(I, b, a, node)
    if isinstance(a, tuple) and isinstance(b, tuple):
        if len(a) != len(b):
            return False
        return _and([eq(I, x, y, node) for x, y in zip(a, b)])
    if isinstance(a, ListV) and isinstance(b, ListV):
        if len(a.items) != len(b.items):
            return False
        return _and([eq(I, x, y, node) for x, y in zip(a.items, b.items)])
    if isinstance(a, SeqV) or isinstance(b, SeqV):
        return seq_eq(I, a, b, node)
    if isinstance(a, ObjV) and isinstance(b, ObjV):
        if a is b:
            return True
        f, owner = a.cls.lookup("__eq__")
        if f is not None and isinstance(f, FuncV):
            return truth_term(I, I.call(BoundMethod(f, a), [b], {}, node), node)
        if a.cls.is_dataclass:
            if a.cls is not b.cls:
                return False
            return _and([eq(I, a.fields[fd.name], b.fields[fd.name], node) for fd in a.cls.dc_fields if fd.compare])
        if a.cls.name in ("IPv4Address", "IPv6Address", "IPText") and a.cls.builtin:
            if a.cls is not b.cls:
                return False
            return eq(I, a.fields["packed"], b.fields["packed"], node)
        return False
    if isinstance(a, Opaque) and isinstance(b, Opaque):
        if a.t.sort() == b.t.sort():
            return z3.simplify(a.t == b.t)
        return False
    if isinstance(a, SetV) and isinstance(b, SetV):
        return _and([set_contains(I, b, x, node) for x in a.items] + [set_contains(I, a, x, node) for x in b.items])
    if isinstance(a, BoundMethod) and isinstance(b, BoundMethod):
        return a.func is b.func and a.self_ is b.self_
    if isinstance(a, DictV) and isinstance(b, DictV):
        if len(a.pairs) != len(b.pairs):
            return False
        raise OutsideSubset("dict equality")
    if type(a) is type(b) and isinstance(a, (FuncV, ClassV, ModuleV, LoggerV, LockV, BuiltinFn)):
        return a is b
    return a is b


def _and(xs):
    conj = []
    for x in xs:
        if x is False:
            return False
        if x is True:
            continue
        conj.append(x)
    if not conj:
        return True
    return z3.And(conj) if len(conj) > 1 else conj[0]


def _or(xs):
    disj = []
    for x in xs:
        if x is True:
            return True
        if x is False:
            continue
        disj.append(x)
    if not disj:
        return False
    return z3.Or(disj) if len(disj) > 1 else disj[0]


def _not(x):
    if isinstance(x, bool):
        return not x
    return z3.Not(x)


def truth_term(I, v, node=None):
    """python value -> bool | z3 Bool without forking where possible"""
    if isinstance(v, bool):
        return v
    if isinstance(v, SBool):
        return v.t
    return I.truthy(v, node)


def seq_eq(I, a, b, node):
    """equality of sequences where at least one has symbolic length: only usable as a
    proof goal (vc.check_eq); as a branch condition it needs a quantifier"""
    raise OutsideSubset("equality of symbolic-length sequences as a branch condition")


def real_term(v):
    if isinstance(v, bool):
        return z3.RealVal(1 if v else 0)
    if isinstance(v, (int, float)):
        return z3.RealVal(v)
    if isinstance(v, SReal):
        return v.t
    if isinstance(v, SInt):
        return z3.ToReal(v.t)
    raise OutsideSubset(f"not a number: {v!r}")


def mk_real(t):
    t = z3.simplify(t)
    return SReal(t)


def compare(I, op, a, b, node=None):
    if op == "Eq":
        return mk_bool(eq(I, a, b, node))
    if op == "NotEq":
        return mk_bool(_not(eq(I, a, b, node)))
    if op in ("Is", "IsNot"):
        r = identical(I, a, b)
        r = r if op == "Is" else _not(r)
        return mk_bool(r)
    if op in ("In", "NotIn"):
        r = contains(I, b, a, node)
        r = r if op == "In" else _not(r)
        return mk_bool(r)
    # ordering
    if isinstance(a, (float, SReal)) or isinstance(b, (float, SReal)):
        if isinstance(a, (int, float)) and isinstance(b, (int, float)):
            return {"Lt": a < b, "LtE": a <= b, "Gt": a > b, "GtE": a >= b}[op]
        ta, tb = real_term(a), real_term(b)
        return mk_bool({"Lt": ta < tb, "LtE": ta <= tb, "Gt": ta > tb, "GtE": ta >= tb}[op])
    if is_intlike(a) and is_intlike(b):
        ta, tb = int_term(a), int_term(b)
        if isinstance(ta, int) and isinstance(tb, int):
            return {"Lt": ta < tb, "LtE": ta <= tb, "Gt": ta > tb, "GtE": ta >= tb}[op]
        ta, tb = zint(ta), zint(tb)
        return mk_bool({"Lt": ta < tb, "LtE": ta <= tb, "Gt": ta > tb, "GtE": ta >= tb}[op])
    if isinstance(a, str) and isinstance(b, str):
        return {"Lt": a < b, "LtE": a <= b, "Gt": a > b, "GtE": a >= b}[op]
    if isinstance(a, tuple) and isinstance(b, tuple) and all(isinstance(x, (int, str)) for x in a + b):
        return {"Lt": a < b, "LtE": a <= b, "Gt": a > b, "GtE": a >= b}[op]
    if a is None or b is None:
        I.throw("TypeError", f"'{op}' not supported between {type(a).__name__} and {type(b).__name__}", node=node)
    raise OutsideSubset(f"ordering comparison of {type(a).__name__} and {type(b).__name__} at {I.where(node)}")


def identical(I, a, b):
    if a is None or b is None:
        o = a if a is not None else b
        if isinstance(o, Opaque):
            isnone = o.attrs.get("__is_none__")
            if isnone is not None:
                return isnone.t if isinstance(isnone, SBool) else isnone
        return a is b
    if isinstance(a, bool) or isinstance(b, bool):
        if isinstance(a, bool) and isinstance(b, bool):
            return a == b
        if isinstance(a, SBool) or isinstance(b, SBool):
            return eq(I, a, b)
        return False
    if is_intlike(a) and is_intlike(b):
        # identity of ints: enum members are singletons; CPython caches -5..256; any other
        # two equal ints may or may not be the same object (a constant and a value decoded
        # from the wire are not) -- both outcomes are explored
        if isinstance(a, EnumV) != isinstance(b, EnumV):
            return False
        e = eq(I, a, b)
        if isinstance(a, EnumV):
            return e
        if e is False or (not isinstance(e, bool) and not I.ctx.decide(e)):
            return False
        ta = int_term(a)
        small = (-5 <= ta <= 256) if isinstance(ta, int) else I.ctx.decide(z3.And(zint(ta) >= -5, zint(ta) <= 256))
        if small:
            return True
        return I.ctx.choose(2) == 0
    if isinstance(a, Opaque) and isinstance(b, Opaque):
        return eq(I, a, b)
    return a is b


def contains(I, container, x, node=None):
    if isinstance(container, (tuple, ListV)):
        items = container if isinstance(container, tuple) else container.items
        return _or([eq(I, x, y, node) for y in items])
    if isinstance(container, SetV):
        return set_contains(I, container, x, node)
    if isinstance(container, DictV):
        return _or([eq(I, x, p[0], node) for p in container.pairs])
    if isinstance(container, SymSet):
        return z3.Select(container.arr, zint(int_term(x)))
    if isinstance(container, MapV):
        return map_contains(I, container, x)
    if isinstance(container, LazySetV):
        container = container.d
    if isinstance(container, LazyDictV):
        from . import lazydict

        return lazydict.contains(I, container, x, node)
    if isinstance(container, ItemsView) and container.kind == "keys":
        return contains(I, container.d, x, node)
    if isinstance(container, str) and isinstance(x, str):
        return x in container
    if isinstance(container, RangeV):
        lo, hi = int_term(container.lo), int_term(container.hi)
        t = int_term(x)
        return _and([as_b(zint(lo) <= zint(t)), as_b(zint(t) < zint(hi))])
    if isinstance(container, ObjV):
        f, _ = container.cls.lookup("__contains__")
        if f is not None:
            return truth_term(I, I.call(BoundMethod(f, container), [x], {}, node), node)
    raise OutsideSubset(f"'in' on {type(container).__name__} at {I.where(node)}")


def as_b(t):
    t = z3.simplify(t)
    if z3.is_true(t):
        return True
    if z3.is_false(t):
        return False
    return t


def set_contains(I, s, x, node=None):
    return _or([eq(I, x, y, node) for y in s.items])


def set_add(I, s, x, node=None):
    """insert keeping elements distinct under the path condition"""
    for y in s.items:
        if I.ctx.decide(as_z3bool(eq(I, x, y, node))):
            return
    s.items.append(x)


def as_z3bool(x):
    if isinstance(x, bool):
        return x
    return x


# ========================================================================== arithmetic


def _is_pow2(n):
    return n > 0 and (n & (n - 1)) == 0


def _mask_shape(m):
    """m == ((1<<a)-1) << s  ->  (a, s) else None"""
    if m <= 0:
        return None
    s = (m & -m).bit_length() - 1
    a = (m >> s).bit_length()
    if (m >> s) == (1 << a) - 1:
        return a, s
    return None


def bitand_const(t, m):
    """t & m for a z3 Int term t and a python int m (exact for all integers t)"""
    if m == 0:
        return z3.IntVal(0)
    if m < 0:
        # t & m == t - (t & ~m) with ~m >= 0
        return t - bitand_const(t, ~m)
    shape = _mask_shape(m)
    if shape is not None:
        a, s = shape
        return ((t / (1 << s)) % (1 << a)) * (1 << s)
    # several separate runs of bits: sum of the runs
    total = z3.IntVal(0)
    bit = 0
    mm = m
    while mm:
        if mm & 1:
            run = 0
            while (mm >> run) & 1:
                run += 1
            total = total + ((t / (1 << bit)) % (1 << run)) * (1 << bit)
            mm >>= run
            bit += run
        else:
            mm >>= 1
            bit += 1
    return total


BV_W = 64


def bv_binop(I, opname, ta, tb, node):
    """general bit operation through 64-bit two's-complement vectors (Python's bitwise
    operators act on the infinite two's complement, which agrees for operands in
    -2**63 .. 2**63-1); outside that range the operation is outside the subset"""
    ctx = I.ctx
    lim = 1 << (BV_W - 1)
    ok = ctx.decide(z3.And(zint(ta) >= -lim, zint(ta) < lim, zint(tb) >= -lim, zint(tb) < lim))
    if not ok:
        raise OutsideSubset(f"bit operation on integers outside the signed 64-bit range at {I.where(node)}")
    a = z3.Int2BV(zint(ta), BV_W)
    b = z3.Int2BV(zint(tb), BV_W)
    r = {"BitOr": a | b, "BitAnd": a & b, "BitXor": a ^ b}[opname]
    return z3.BV2Int(r, is_signed=True)


def binop(I, opname, a, b, node=None, inplace=False):
    # ---- bytes-like
    ra, rb = as_rope(a), as_rope(b)
    if opname == "Add" and ra is not None and rb is not None and not isinstance(a, SStr):
        new = ra.concat(rb)
        if isinstance(a, BytearrayV):
            if inplace:
                a.rope = new
                return a
            return BytearrayV(new)
        return SBytes(new.segs)
    if opname == "Add" and isinstance(a, SStr) and isinstance(b, SStr):
        return SStr(a.rope.concat(b.rope))
    if opname == "Add" and isinstance(a, str) and isinstance(b, str):
        return a + b
    if opname == "Add" and isinstance(a, tuple) and isinstance(b, tuple):
        return a + b
    if opname == "Add" and (isinstance(a, SeqV) or isinstance(b, SeqV)) and isinstance(a, (tuple, SeqV)) and isinstance(b, (tuple, SeqV)):
        return seq_concat(I, a, b)
    if opname == "Add" and isinstance(a, ListV) and isinstance(b, ListV):
        if inplace:
            a.items.extend(b.items)
            return a
        return ListV(a.items + b.items)
    if opname == "Mod" and isinstance(a, str):
        return "<%-formatted>"
    if opname == "Mult" and isinstance(a, (str, tuple)) and isinstance(b, int):
        return a * b
    if opname == "Mult" and isinstance(a, SBytes) and isinstance(b, int):
        return SBytes(a.segs * b)
    # ---- floats / reals
    if isinstance(a, (float, SReal)) or isinstance(b, (float, SReal)):
        if isinstance(a, (int, float)) and isinstance(b, (int, float)):
            return _native_num(opname, a, b, I, node)
        ta, tb = real_term(a), real_term(b)
        if opname == "Add":
            return mk_real(ta + tb)
        if opname == "Sub":
            return mk_real(ta - tb)
        if opname == "Mult":
            return mk_real(ta * tb)
        if opname == "Div":
            return mk_real(ta / tb)
        raise OutsideSubset(f"real operation {opname}")
    if not (is_intlike(a) and is_intlike(b)):
        I.throw("TypeError", f"unsupported operand types for {opname}: {type(a).__name__} and {type(b).__name__}", node=node)
    ta, tb = int_term(a), int_term(b)
    if isinstance(ta, int) and isinstance(tb, int):
        return _native_num(opname, ta, tb, I, node)
    za, zb = zint(ta), zint(tb)
    if opname == "Add":
        return mk_int(za + zb)
    if opname == "Sub":
        return mk_int(za - zb)
    if opname == "Mult":
        return mk_int(za * zb)
    if opname in ("FloorDiv", "Mod"):
        if isinstance(tb, int):
            if tb == 0:
                I.throw("ZeroDivisionError", node=node)
            if tb > 0:
                return mk_int(za / zb if opname == "FloorDiv" else za % zb)
        raise OutsideSubset(f"{opname} by a symbolic or negative divisor at {I.where(node)}")
    if opname == "Div":
        if isinstance(tb, int) and tb != 0:
            return mk_real(z3.ToReal(za) / z3.RealVal(tb))
        raise OutsideSubset("true division by symbolic value")
    if opname == "LShift":
        if isinstance(tb, int) and tb >= 0:
            return mk_int(za * (1 << tb))
        raise OutsideSubset("shift by symbolic amount")
    if opname == "RShift":
        if isinstance(tb, int) and tb >= 0:
            return mk_int(za / (1 << tb))
        raise OutsideSubset("shift by symbolic amount")
    if opname == "BitAnd":
        if isinstance(tb, int):
            return mk_int(bitand_const(za, tb))
        if isinstance(ta, int):
            return mk_int(bitand_const(zb, ta))
        return mk_int(bv_binop(I, opname, ta, tb, node))
    if opname == "BitOr":
        # x | c for a constant c: x + c - (x & c)
        if isinstance(tb, int) and tb >= 0:
            return mk_int(za + tb - bitand_const(za, tb))
        if isinstance(ta, int) and ta >= 0:
            return mk_int(zb + ta - bitand_const(zb, ta))
        # (x << k) | y with 0 <= y < 2**k is x*2**k + y: decide the range, else bit-vectors
        k = _shift_of(za)
        if k is not None and I.ctx.decide(z3.And(zb >= 0, zb < (1 << k))):
            return mk_int(za + zb)
        k = _shift_of(zb)
        if k is not None and I.ctx.decide(z3.And(za >= 0, za < (1 << k))):
            return mk_int(za + zb)
        return mk_int(bv_binop(I, opname, ta, tb, node))
    if opname == "BitXor":
        return mk_int(bv_binop(I, opname, ta, tb, node))
    if opname == "Pow":
        if isinstance(ta, int) and ta == 2:
            return I.ghost.pow2(b)
        raise OutsideSubset("power with symbolic operands")
    raise OutsideSubset(f"binary operator {opname}")


def _shift_of(t):
    """t is syntactically  c * x  with c a power of two -> log2(c)"""
    t = z3.simplify(t)
    if z3.is_mul(t) and t.num_args() == 2:
        c, x = t.arg(0), t.arg(1)
        if z3.is_int_value(c) and _is_pow2(c.as_long()):
            return c.as_long().bit_length() - 1
        if z3.is_int_value(x) and _is_pow2(x.as_long()):
            return x.as_long().bit_length() - 1
    return None


def _native_num(opname, a, b, I, node):
    try:
        if opname == "Add":
            return a + b
        if opname == "Sub":
            return a - b
        if opname == "Mult":
            return a * b
        if opname == "FloorDiv":
            return a // b
        if opname == "Mod":
            return a % b
        if opname == "Div":
            return a / b
        if opname == "LShift":
            return a << b
        if opname == "RShift":
            return a >> b
        if opname == "BitAnd":
            return a & b
        if opname == "BitOr":
            return a | b
        if opname == "BitXor":
            return a ^ b
        if opname == "Pow":
            return a**b
    except ZeroDivisionError:
        I.throw("ZeroDivisionError", node=node)
    raise OutsideSubset(f"binary operator {opname}")


def unop(I, opname, v, node=None):
    if opname == "USub":
        if isinstance(v, (int, float)):
            return -v
        if isinstance(v, SReal):
            return mk_real(-v.t)
        return mk_int(-zint(int_term(v)))
    if opname == "UAdd":
        return v
    if opname == "Invert":
        if isinstance(v, int):
            return ~v
        return mk_int(-zint(int_term(v)) - 1)
    raise OutsideSubset(f"unary operator {opname}")


# ========================================================================== subscripts


def _index_int(I, seq_len, idx, node):
    """normalise a concrete-length index (int or symbolic) -> python int, raising IndexError"""
    if isinstance(idx, (SInt, EnumV, SBool)):
        t = int_term(idx)
        if isinstance(t, int):
            idx = t
        else:
            for c in range(-seq_len, seq_len):
                if I.ctx.decide(zint(t) == c):
                    idx = c
                    break
            else:
                I.throw("IndexError", "index out of range", node=node)
    if not isinstance(idx, int):
        I.throw("TypeError", "indices must be integers", node=node)
    if idx < 0:
        idx += seq_len
    if idx < 0 or idx >= seq_len:
        I.throw("IndexError", "index out of range", node=node)
    return idx


def _slice_ints(I, s, n, node):
    lo, hi = s.start, s.stop
    lo = int_term(lo) if lo is not None else None
    hi = int_term(hi) if hi is not None else None
    if (lo is None or isinstance(lo, int)) and (hi is None or isinstance(hi, int)):
        return slice(lo, hi).indices(n)[:2]
    # symbolic bounds on a concrete-length sequence: enumerate
    ctx = I.ctx

    def norm(x, default):
        if x is None:
            return default
        if isinstance(x, int):
            return slice(x, None).indices(n)[0] if default == 0 else slice(None, x).indices(n)[1]
        t = zint(x)
        if ctx.decide(t < 0):
            t = t + n
            if ctx.decide(t < 0):
                return 0
        for c in range(n):
            if ctx.decide(t == c):
                return c
        return n

    return norm(lo, 0), norm(hi, n)


def getitem(I, obj, idx, node=None):
    obj = deref(obj)
    if isinstance(obj, tuple) or isinstance(obj, ListV):
        items = obj if isinstance(obj, tuple) else obj.items
        if isinstance(idx, slice):
            lo, hi = _slice_ints(I, idx, len(items), node)
            r = items[lo:hi]
            return tuple(r) if isinstance(obj, tuple) else ListV(r)
        return items[_index_int(I, len(items), idx, node)]
    r = as_rope(obj)
    if r is not None:
        if isinstance(idx, slice):
            lo = int_term(idx.start) if idx.start is not None else None
            hi = int_term(idx.stop) if idx.stop is not None else None
            out = ropes.slice_(I.ctx, r, lo, hi)
            if isinstance(obj, BytearrayV):
                return BytearrayV(out)
            if isinstance(obj, SStr):
                return SStr(out)
            return out
        if isinstance(obj, SStr):
            raise OutsideSubset("indexing a symbolic str")
        i = int_term(idx)
        L = r.length()
        ctx = I.ctx
        if ropes._cmp(ctx, i, "<", 0):
            i = as_const(ropes.zadd(i, L))
        if ropes._cmp(ctx, i, "<", 0) or ropes._cmp(ctx, i, ">=", L):
            I.throw("IndexError", "index out of range", node=node)
        return mk_int(ropes.index(ctx, r, i))
    if isinstance(obj, DictV):
        return dict_getitem(I, obj, idx, node)
    if isinstance(obj, MapV):
        return map_getitem(I, obj, idx, node)
    if isinstance(obj, LazyDictV):
        from . import lazydict

        return lazydict.getitem(I, obj, idx, node)
    if isinstance(obj, ItemsView) and isinstance(obj.d, LazyDictV):
        from . import lazydict

        seq = lazydict.items_seq(I, obj.d, obj.kind, node)
        return getitem(I, ListV(seq) if isinstance(seq, list) else seq, idx, node)
    if isinstance(obj, SeqV):
        return seq_getitem(I, obj, idx, node)
    if isinstance(obj, SymListV):
        return seq_getitem(I, symlist_as_seq(I, obj), idx, node)
    if isinstance(obj, RangeV) and not isinstance(idx, slice):
        return mk_int(zint(int_term(obj.lo)) + zint(int_term(idx)) * obj.step)
    if isinstance(obj, str):
        if isinstance(idx, slice):
            lo, hi = _slice_ints(I, idx, len(obj), node)
            return obj[lo:hi]
        return obj[_index_int(I, len(obj), idx, node)]
    if isinstance(obj, (TypingV,)):
        return TypingV()
    if isinstance(obj, ClassV):
        return obj  # Generic[T] subscription
    if isinstance(obj, ObjV):
        f, _ = obj.cls.lookup("__getitem__")
        if f is not None:
            return I.call(BoundMethod(f, obj), [idx], {}, node)
    raise OutsideSubset(f"subscript of {type(obj).__name__} at {I.where(node)}")


def setitem(I, obj, idx, value, node=None):
    if isinstance(obj, ListV):
        obj.items[_index_int(I, len(obj.items), idx, node)] = value
        return
    if isinstance(obj, DictV):
        for p in obj.pairs:
            if _dec(I, eq(I, p[0], idx, node)):
                p[1] = value
                return
        obj.pairs.append([idx, value])
        return
    if isinstance(obj, MapV):
        return map_setitem(I, obj, idx, value, node)
    if isinstance(obj, LazyDictV):
        from . import lazydict

        return lazydict.setitem(I, obj, idx, value, node)
    raise OutsideSubset(f"item assignment on {type(obj).__name__} at {I.where(node)}")


def _dec(I, c):
    return c if isinstance(c, bool) else I.ctx.decide(c)


def dict_find(I, d, key, node=None):
    for i, p in enumerate(d.pairs):
        if _dec(I, eq(I, p[0], key, node)):
            return i
    return -1


def dict_getitem(I, d, key, node=None):
    i = dict_find(I, d, key, node)
    if i >= 0:
        return d.pairs[i][1]
    if d.default_factory is not None:
        v = I.call(d.default_factory, [], {}, node)
        d.pairs.append([key, v])
        return v
    I.throw("KeyError", key, node=node)


def delitem(I, obj, idx, node=None):
    if isinstance(obj, DictV):
        i = dict_find(I, obj, idx, node)
        if i < 0:
            I.throw("KeyError", idx, node=node)
        del obj.pairs[i]
        return
    if isinstance(obj, ListV):
        del obj.items[_index_int(I, len(obj.items), idx, node)]
        return
    if isinstance(obj, MapV):
        return map_delitem(I, obj, idx, node)
    if isinstance(obj, LazyDictV):
        from . import lazydict

        return lazydict.delitem(I, obj, idx, node)
    raise OutsideSubset("del on " + type(obj).__name__)


# ========================================================================== symbolic sequences


def seq_getitem(I, s, idx, node):
    ctx = I.ctx
    if isinstance(idx, slice):
        n = s.n
        lo = int_term(idx.start) if idx.start is not None else None
        hi = int_term(idx.stop) if idx.stop is not None else None
        lo = ropes._norm_index(ctx, lo, n, 0)
        hi = ropes._norm_index(ctx, hi, n, n)
        if ropes._cmp(ctx, hi, "<=", lo):
            return () if s.kind == "tuple" else ListV()
        newn = as_const(ropes.zsub(hi, lo))
        at = s.at
        lo_ = lo
        if isinstance(newn, int) and newn <= 32:
            items = [at(as_const(ropes.zadd(lo_, j))) for j in range(newn)]
            return tuple(items) if s.kind == "tuple" else ListV(items)
        ident = ("slice", s.ident, str(z3.simplify(zint(lo_))), str(z3.simplify(zint(newn)))) if s.ident is not None else None
        return SeqV(newn, lambda i: at(as_const(ropes.zadd(lo_, i))), s.kind, ident=ident)
    i = int_term(idx)
    if getattr(I.ghost, "raw_index", False):
        # inside a quantifier: the sequence is read as a total function of the index
        return s.at(i)
    if ropes._cmp(ctx, i, "<", 0):
        i = as_const(ropes.zadd(i, s.n))
    if ropes._cmp(ctx, i, "<", 0) or ropes._cmp(ctx, i, ">=", s.n):
        I.throw("IndexError", "index out of range", node=node)
    return s.at(i)


def symlist_as_seq(I, l, kind="list"):
    cur = SeqV(l.prefix.n, l.prefix.at, kind, ident=l.prefix.ident)
    if isinstance(l.prefix.n, int) and l.prefix.n == 0:
        cur = ()
    run = []
    for it in l.items:
        if isinstance(it, SeqV):
            if run:
                cur = cur + tuple(run) if isinstance(cur, tuple) else seq_concat(I, cur, tuple(run), kind)
                run = []
            cur = seq_concat(I, cur, it, kind)
        else:
            run.append(it)
    if run:
        cur = cur + tuple(run) if isinstance(cur, tuple) else seq_concat(I, cur, tuple(run), kind)
    if isinstance(cur, tuple):
        return SeqV(len(cur), lambda i, cur=cur: _tuple_at(I, cur, i), kind)
    return cur


def seq_concat(I, a, b, kind="tuple"):
    def parts(x):
        if isinstance(x, tuple):
            n = len(x)
            return n, (lambda i, x=x: _tuple_at(I, x, i))
        return x.n, x.at

    na, fa = parts(a)
    nb, fb = parts(b)
    if isinstance(na, int) and na == 0:
        return b
    if isinstance(nb, int) and nb == 0:
        return a
    ctx = I.ctx

    def sid(x):
        if isinstance(x, tuple):
            return ("tuple",) + tuple(I.ghost.fingerprint(e) for e in x)
        return x.ident

    ia, ib = sid(a), sid(b)
    ident = ("cat", ia, ib) if ia is not None and ib is not None else None

    def at(i):
        if not isinstance(i, int) and not isinstance(b, tuple) and not isinstance(a, tuple):
            # both parts are total functions of the index: if they yield opaque values,
            # combine them at term level (no fork; usable under quantifiers)
            x = fa(i)
            y = fb(as_const(ropes.zsub(i, na)))
            if isinstance(x, Opaque) and isinstance(y, Opaque) and x.t.sort() == y.t.sort():
                return Opaque(z3.If(zint(i) < zint(na), x.t, y.t), x.tag)
        if ropes._cmp(ctx, i, "<", na):
            return fa(i)
        return fb(as_const(ropes.zsub(i, na)))

    return SeqV(as_const(ropes.zadd(na, nb)), at, kind, ident=ident)


def _tuple_at(I, x, i):
    if isinstance(i, int):
        return x[i]
    for c in range(len(x)):
        if I.ctx.decide(zint(i) == c):
            return x[c]
    raise PathAbort()


# ========================================================================== symbolic maps (see vcapi for construction)


def map_key_term(I, m, key):
    return m.keysort.encode(I, key)


def map_contains(I, m, key):
    k = m.key(I, key)
    return z3.Select(m.dom, k)


def map_nonempty(I, m):
    raise OutsideSubset("truthiness of a symbolic map")


def map_getitem(I, m, key, node=None):
    k = m.key(I, key)
    if I.ctx.decide(z3.Select(m.dom, k)):
        return m.valwrap(I, z3.Select(m.val, k))
    if m.default_factory is not None:
        v = I.call(m.default_factory, [], {}, node)
        map_setitem(I, m, key, v, node)
        return v
    I.throw("KeyError", key, node=node)


def map_setitem(I, m, key, value, node=None):
    k = m.key(I, key)
    m.dom = z3.Store(m.dom, k, z3.BoolVal(True))
    m.val = z3.Store(m.val, k, m.valunwrap(I, value))


def map_delitem(I, m, key, node=None):
    k = m.key(I, key)
    if not I.ctx.decide(z3.Select(m.dom, k)):
        I.throw("KeyError", key, node=node)
    m.dom = z3.Store(m.dom, k, z3.BoolVal(False))


# ========================================================================== methods of built-in values


def value_getattr(I, obj, name, node):
    if isinstance(obj, (ListV, SymListV, CompDictV, LazyDictV, LazySetV, DictV, SetV, SBytes, BytearrayV, SStr, str, tuple, MapV, SeqV, LoggerV, LockV, StructV, ItemsView, CoroV, bytes, int, SInt)):
        if isinstance(obj, StructV):
            if name == "size":
                return obj.size
            if name == "format":
                return obj.fmt
        return BuiltinMethod(obj, name)
    if isinstance(obj, Opaque):
        if name in obj.attrs:
            return obj.attrs[name]
        return I.ghost.opaque_attr(obj, name, node)
    return I.ghost.value_getattr(obj, name, node)


def obj_getattr_fallback(I, obj, name, node):
    if obj.cls.builtin and obj.cls.name in ("IPv4Address", "IPv6Address"):
        if name == "is_multicast":
            raise OutsideSubset("ip.is_multicast")
    return NotImplemented


def call_value(I, f, args, kwargs, node):
    return I.ghost.call_value(f, args, kwargs, node)


def call_method(I, obj, name, args, kwargs, node):
    ctx = I.ctx
    obj = deref(obj)
    if isinstance(obj, LoggerV):
        if name == "getChild":
            return LoggerV()
        if name in ("isEnabledFor",):
            return False
        return None  # effects of logging are dropped; arguments were evaluated
    if isinstance(obj, LockV):
        if name == "acquire":
            obj.held = True
            return True
        if name == "release":
            obj.held = False
            return None
        if name == "locked":
            return obj.held
    if isinstance(obj, StructV):
        if name == "pack":
            return struct_pack(I, obj, args, node)
        if name == "unpack":
            return struct_unpack(I, obj, args[0], node)
    if isinstance(obj, ListV):
        if name == "append":
            obj.items.append(args[0])
            return None
        if name == "extend":
            src = deref(args[0])
            if isinstance(src, SymListV):
                src = symlist_as_seq(I, src)
            if isinstance(src, SeqV) and not isinstance(src.n, int):
                # the list becomes one with a symbolic part: a SymListV takes over
                obj.sym = SymListV(SeqV(0, lambda i: None, "tuple", ident="empty"), list(obj.items) + [src])
                return None
            obj.items.extend(list(iterate(I, src, node)))
            return None
        if name == "pop":
            if not obj.items:
                I.throw("IndexError", "pop from empty list", node=node)
            i = _index_int(I, len(obj.items), args[0], node) if args else len(obj.items) - 1
            return obj.items.pop(i)
        if name == "clear":
            obj.items.clear()
            return None
        if name == "remove":
            for i, y in enumerate(obj.items):
                if _dec(I, eq(I, y, args[0], node)):
                    del obj.items[i]
                    return None
            I.throw("ValueError", "list.remove(x): x not in list", node=node)
        if name == "index":
            for i, y in enumerate(obj.items):
                if _dec(I, eq(I, y, args[0], node)):
                    return i
            I.throw("ValueError", "x not in list", node=node)
        if name == "insert":
            obj.items.insert(args[0], args[1])
            return None
        if name == "copy":
            return ListV(obj.items)
        if name == "count":
            n = 0
            for y in obj.items:
                if _dec(I, eq(I, y, args[0], node)):
                    n += 1
            return n
    if isinstance(obj, SymListV):
        if name == "append":
            obj.items.append(args[0])
            return None
        if name == "extend":
            src = args[0]
            if isinstance(src, SymListV):
                src = symlist_as_seq(I, src)
            if isinstance(src, SeqV) and not isinstance(src.n, int):
                obj.items.append(src)
            else:
                obj.items.extend(list(iterate(I, src, node)))
            return None
        raise OutsideSubset(f"list.{name} on a list with a symbolic prefix at {I.where(node)}")
    if isinstance(obj, CompDictV):
        if name == "get":
            key = args[0]
            default = args[1] if len(args) > 1 else None
            ctx = I.ctx
            if ctx.choose(2) == 0:
                return default
            t = ctx.fresh_int("compdict.idx")
            ctx.assume(z3.And(t >= zint(int_term(obj.lo)), t < zint(int_term(obj.hi))))
            if not ctx.feasible():
                raise PathAbort()
            e = eq(I, obj.keyfn(SInt(t)), key, node)
            if e is False:
                raise PathAbort()
            if e is not True:
                ctx.assume(e)
                if not ctx.feasible():
                    raise PathAbort()
            return obj.valfn(SInt(t))
        raise OutsideSubset(f"dict.{name} on a dict comprehension over a symbolic range")
    if isinstance(obj, tuple):
        if name == "index":
            for i, y in enumerate(obj):
                if _dec(I, eq(I, y, args[0], node)):
                    return i
            I.throw("ValueError", "x not in tuple", node=node)
        if name == "count":
            return sum(1 for y in obj if _dec(I, eq(I, y, args[0], node)))
    if isinstance(obj, DictV):
        if name == "get":
            i = dict_find(I, obj, args[0], node)
            if i >= 0:
                return obj.pairs[i][1]
            return args[1] if len(args) > 1 else kwargs.get("default")
        if name == "pop":
            i = dict_find(I, obj, args[0], node)
            if i >= 0:
                return obj.pairs.pop(i)[1]
            if len(args) > 1:
                return args[1]
            I.throw("KeyError", args[0], node=node)
        if name in ("items", "keys", "values"):
            return ItemsView(obj, name)
        if name == "clear":
            obj.pairs.clear()
            return None
        if name == "setdefault":
            i = dict_find(I, obj, args[0], node)
            if i >= 0:
                return obj.pairs[i][1]
            obj.pairs.append([args[0], args[1] if len(args) > 1 else None])
            return obj.pairs[-1][1]
        if name == "copy":
            return DictV(obj.pairs, obj.default_factory)
        if name == "update":
            for k, v in iterate(I, ItemsView(args[0], "items"), node):
                setitem(I, obj, k, v, node)
            return None
    if isinstance(obj, MapV):
        return I.ghost.map_method(obj, name, args, kwargs, node)
    if isinstance(obj, LazySetV):
        from . import lazydict

        if name == "add":
            lazydict.setitem(I, obj.d, args[0], True, node)
            return None
        if name in ("remove", "discard"):
            e = lazydict.lookup(I, obj.d, args[0], node)
            if not e[2]:
                if name == "remove":
                    I.throw("KeyError", args[0], node=node)
                return None
            e[1], e[2] = None, False
            return None
        if name == "clear":
            lazydict.clear(I, obj.d)
            return None
        raise OutsideSubset(f"set.{name} on a set with unbounded contents")
    if isinstance(obj, LazyDictV):
        from . import lazydict

        if name == "get":
            e = lazydict.lookup(I, obj, args[0], node)
            if e[2]:
                return e[1]
            return args[1] if len(args) > 1 else kwargs.get("default")
        if name == "pop":
            e = lazydict.lookup(I, obj, args[0], node)
            if e[2]:
                v = e[1]
                e[1], e[2] = None, False
                return v
            if len(args) > 1:
                return args[1]
            I.throw("KeyError", args[0], node=node)
        if name in ("items", "keys", "values"):
            return ItemsView(obj, name)
        if name == "clear":
            lazydict.clear(I, obj)
            return None
        if name == "setdefault":
            e = lazydict.lookup(I, obj, args[0], node)
            if not e[2]:
                e[1], e[2] = (args[1] if len(args) > 1 else None), True
            return e[1]
        raise OutsideSubset(f"dict.{name} on a dict with unbounded contents")
    if isinstance(obj, SetV):
        if name == "add":
            set_add(I, obj, args[0], node)
            return None
        if name in ("remove", "discard"):
            for i, y in enumerate(obj.items):
                if _dec(I, eq(I, y, args[0], node)):
                    del obj.items[i]
                    return None
            if name == "remove":
                I.throw("KeyError", args[0], node=node)
            return None
        if name == "clear":
            obj.items.clear()
            return None
        if name == "copy":
            return SetV(obj.items, obj.frozen)
    if isinstance(obj, ItemsView):
        pass
    r = as_rope(obj)
    if r is not None:
        return bytes_method(I, obj, r, name, args, kwargs, node)
    if isinstance(obj, str):
        return str_method(I, obj, name, args, kwargs, node)
    if isinstance(obj, CoroV):
        if name == "close":
            return None
    raise OutsideSubset(f"method {name!r} of {type(obj).__name__} at {I.where(node)}")


def str_method(I, s, name, args, kwargs, node):
    if name == "encode":
        enc = args[0] if args else "utf-8"
        try:
            return SBytes.from_concrete(s.encode(enc))
        except UnicodeEncodeError:
            I.throw("UnicodeEncodeError", node=node)
    if name == "format":
        return "<formatted>"
    if name == "split":
        if all(isinstance(a, (str, int)) or a is None for a in args):
            return ListV(s.split(*args))
    if name in ("lower", "upper", "strip"):
        return getattr(s, name)()
    if name in ("startswith", "endswith") and all(isinstance(a, (str, tuple, int)) for a in args):
        return getattr(s, name)(*args)
    if name == "join":
        return "<joined>"
    if name == "lstrip":
        return s.lstrip(*args)
    raise OutsideSubset(f"str.{name}")


def bytes_method(I, obj, r, name, args, kwargs, node):
    ctx = I.ctx
    if isinstance(obj, SStr):
        if name == "encode":
            # ASCII text: bytes < 128 by construction of SStr
            return SBytes(r.segs)
        raise OutsideSubset(f"str.{name} on symbolic text")
    if name == "append" and isinstance(obj, BytearrayV):
        v = int_term(args[0])
        if not _dec(I, as_b(z3.And(zint(v) >= 0, zint(v) < 256)) if not isinstance(v, int) else 0 <= v < 256):
            I.throw("ValueError", "byte must be in range(0, 256)", node=node)
        obj.rope = SBytes(r.segs + (Unit(v),))
        return None
    if name == "extend" and isinstance(obj, BytearrayV):
        obj.rope = r.concat(as_rope(args[0]))
        return None
    if name == "join":
        return bytes_join(I, r, args[0], node)
    if name == "decode":
        enc = args[0] if args else "utf-8"
        if enc != "ascii":
            raise OutsideSubset("decode with codec other than ascii")
        return I.ghost.ascii_decode(r, node)
    if name == "find":
        return I.ghost.bytes_find(r, as_rope(args[0]), node)
    if name == "rfind":
        return I.ghost.bytes_find(r, as_rope(args[0]), node, last=True)
    if name == "hex":
        return "<hex>"
    raise OutsideSubset(f"bytes.{name} at {I.where(node)}")


def bytes_join(I, sep, it, node):
    if sep.length() != 0:
        raise OutsideSubset("join with non-empty separator")
    if isinstance(it, GenV):
        # a generator over a symbolic-length sequence is delegated to the ghost layer
        r = I.ghost.join_gen(it, node)
        if r is not NotImplemented:
            return r
    out = SBytes(())
    for x in iterate(I, it, node):
        rx = as_rope(x)
        if rx is None:
            I.throw("TypeError", "sequence item: expected a bytes-like object", node=node)
        out = out.concat(rx)
    return out


# ========================================================================== struct


_STRUCT_CODES = {"B": 1, "H": 2, "I": 4, "L": 4, "Q": 8, "b": 1, "h": 2, "i": 4, "l": 4, "q": 8}


def parse_struct_fmt(fmt):
    if not fmt or fmt[0] not in "!><":
        raise OutsideSubset(f"struct format {fmt!r}: only explicit standard byte orders (! > <) are modelled")
    little = fmt[0] == "<"
    items = []
    i = 1
    size = 0
    while i < len(fmt):
        j = i
        while fmt[j].isdigit():
            j += 1
        cnt = int(fmt[i:j]) if j > i else None
        code = fmt[j]
        if code == "s":
            n = cnt if cnt is not None else 1
            items.append(("s", n))
            size += n
        elif code in _STRUCT_CODES and code.isupper():
            for _ in range(cnt or 1):
                items.append((code, _STRUCT_CODES[code]))
                size += _STRUCT_CODES[code]
        elif code == "x":
            items.append(("x", cnt or 1))
            size += cnt or 1
        else:
            raise OutsideSubset(f"struct format code {code!r}")
        i = j + 1
    return StructV(fmt, items, size, little)


def struct_pack(I, st, args, node):
    ctx = I.ctx
    vals = list(args)
    need = sum(1 for c, _ in st.items if c != "x")
    if len(vals) != need:
        I.throw("StructError", f"pack expected {need} items for packing (got {len(vals)})", node=node)
    segs = []
    vi = 0
    for code, w in st.items:
        if code == "x":
            segs.extend(Unit(0) for _ in range(w))
            continue
        v = vals[vi]
        vi += 1
        if code == "s":
            r = as_rope(v)
            if r is None or isinstance(v, SStr):
                I.throw("StructError", "argument for 's' must be a bytes object", node=node)
            n = r.length()
            if not ropes._cmp(ctx, n, "==", w):
                raise OutsideSubset("struct 's' item whose length differs from the field width (padding/truncation)")
            segs.extend(Unit(b) for b in ropes.units(ctx, r, w))
            continue
        if not is_intlike(v):
            I.throw("StructError", "required argument is not an integer", node=node)
        t = int_term(v)
        lim = 256**w
        if isinstance(t, int):
            inrange = 0 <= t < lim
        else:
            inrange = ctx.decide(z3.And(t >= 0, t < lim))
        if not inrange:
            I.throw("StructError", f"'{code}' format requires 0 <= number <= {lim - 1}", node=node)
        bs_ = ropes.be_bytes(ctx, t if isinstance(t, int) else (v if isinstance(v, SInt) else SInt(t)), w)
        segs.extend(reversed(bs_) if st.little else bs_)
    return SBytes(segs)


def struct_unpack(I, st, buf, node):
    ctx = I.ctx
    r = as_rope(buf)
    if r is None or isinstance(buf, SStr):
        I.throw("TypeError", "a bytes-like object is required", node=node)
    n = r.length()
    if not ropes._cmp(ctx, n, "==", st.size):
        I.throw("StructError", f"unpack requires a buffer of {st.size} bytes", node=node)
    bs = ropes.units(ctx, r, st.size)
    out = []
    pos = 0
    for code, w in st.items:
        chunk = bs[pos : pos + w]
        pos += w
        if code == "x":
            continue
        if code == "s":
            out.append(SBytes(Unit(b) for b in chunk))
        else:
            out.append(ropes.be_value(chunk[::-1] if st.little else chunk))
    return tuple(out)


# ========================================================================== enum / dataclasses / constructors


def enum_lookup(I, cls, v, node):
    if isinstance(v, EnumV):
        v = v.value
    t = int_term(v)
    members = list(cls.enum_members.values())
    if isinstance(t, int):
        for m in members:
            if m.value == t:
                return m
        I.throw("ValueError", f"{t} is not a valid {cls.name}", node=node)
    vals = sorted({m.value for m in members})
    if I.ctx.decide(z3.Or([t == c for c in vals])):
        return EnumV(cls, v if isinstance(v, SInt) else SInt(t))
    I.throw("ValueError", f"not a valid {cls.name}", node=node)


def dataclass_decorate(I, cls, frozen=False, eq_=True):
    fields = []
    seen = {}
    # inherited fields first, in MRO order from the most basic class
    for base in reversed(cls.mro[1:]):
        if base.is_dataclass and base.dc_fields:
            for fd in base.dc_fields:
                seen[fd.name] = fd
    for name, is_classvar in cls.annotations:
        if is_classvar:
            continue
        if name in cls.ns:
            d = cls.ns[name]
            if isinstance(d, FieldSpec):
                fd = DCField(name, d.default, d.default_factory, d.compare, d.has_default or d.default_factory is not None)
                if d.has_default:
                    cls.ns[name] = d.default
                else:
                    del cls.ns[name]
            else:
                fd = DCField(name, d, None, True, True)
        else:
            fd = DCField(name)
        seen[name] = fd
    fields = list(seen.values())
    cls.is_dataclass = True
    cls.frozen = frozen
    cls.dc_fields = fields
    return cls


def instantiate_special(I, cls, args, kwargs, node):
    if not cls.builtin:
        return NotImplemented
    n = cls.name
    if n == "int":
        if not args:
            return 0
        v = args[0]
        if isinstance(v, (int, SInt)):
            return v
        if isinstance(v, SBool):
            return mk_int(int_term(v))
        if isinstance(v, EnumV):
            return v.value
        if isinstance(v, str):
            try:
                return int(v, *args[1:])
            except ValueError:
                I.throw("ValueError", "invalid literal for int()", node=node)
        if isinstance(v, float):
            return int(v)
        return I.ghost.int_of(v, node)
    if n == "bool":
        if not args:
            return False
        v = args[0]
        if isinstance(v, (SBool, bool)):
            return v
        if isinstance(v, (SInt, EnumV)):
            return mk_bool(zint(int_term(v)) != 0)
        return I.truthy(v, node)
    if n == "float":
        v = args[0] if args else 0.0
        if isinstance(v, (int, float)):
            return float(v)
        return mk_real(real_term(v))
    if n == "str":
        if not args:
            return ""
        v = args[0]
        if isinstance(v, str):
            return v
        if isinstance(v, int) and not isinstance(v, bool):
            return str(v)
        return I.ghost.str_of(v, node)
    if n == "tuple":
        if not args:
            return ()
        v = deref(args[0])
        if isinstance(v, SeqV):
            return SeqV(v.n, v.at, "tuple", ident=v.ident)
        if isinstance(v, SymListV):
            return symlist_as_seq(I, v, "tuple")
        return tuple(iterate(I, v, node))
    if n == "list":
        if not args:
            return ListV()
        v = args[0]
        if isinstance(v, LazyDictV):
            v = ItemsView(v, "keys")
        if isinstance(v, ItemsView) and isinstance(v.d, LazyDictV):
            from . import lazydict

            seq = lazydict.items_seq(I, v.d, v.kind, node)
            v = ListV(seq) if isinstance(seq, list) else seq
        if isinstance(v, SeqV) and not isinstance(v.n, int):
            return I.ghost.list_of_seq(v, node)
        return ListV(list(iterate(I, v, node)))
    if n == "dict":
        d = DictV()
        if args:
            src = args[0]
            if isinstance(src, DictV):
                d.pairs = [list(p) for p in src.pairs]
            else:
                for k, v in iterate(I, src, node):
                    setitem(I, d, k, v, node)
        for k, v in kwargs.items():
            setitem(I, d, k, v, node)
        return d
    if n in ("set", "frozenset"):
        s = SetV(frozen=(n == "frozenset"))
        if args:
            src = args[0]
            if isinstance(src, (SymSet,)):
                return src
            if n == "frozenset" and (isinstance(deref(src), SymListV) or (isinstance(deref(src), SeqV) and not isinstance(deref(src).n, int))):
                # the set of the elements of a list of symbolic length: a value determined by
                # that list (nothing else is known about it here)
                return I.ghost.set_of_symbolic_list(deref(src), node)
            for x in iterate(I, src, node):
                set_add(I, s, x, node)
        return s
    if n == "bytes" or n == "bytearray":
        if not args:
            r = SBytes(())
        else:
            v = args[0]
            rv = as_rope(v)
            if rv is not None and not isinstance(v, SStr):
                r = SBytes(rv.segs)
            elif isinstance(v, int):
                r = SBytes(Unit(0) for _ in range(v))
            else:
                segs = []
                for x in iterate(I, v, node):
                    t = int_term(x)
                    ok = (0 <= t < 256) if isinstance(t, int) else I.ctx.decide(z3.And(zint(t) >= 0, zint(t) < 256))
                    if not ok:
                        I.throw("ValueError", "bytes must be in range(0, 256)", node=node)
                    segs.append(Unit(t))
                r = SBytes(segs)
        return BytearrayV(r) if n == "bytearray" else r
    if n == "object":
        return ObjV(cls)
    if n == "type":
        v = args[0]
        if isinstance(v, ObjV):
            return v.cls
        raise OutsideSubset("type() of a non-instance")
    if n in ("IPv4Address", "IPv6Address"):
        return I.ghost.ip_address_ctor(cls, args[0], node)
    return NotImplemented


# ========================================================================== context managers / await


def ctx_enter(I, m, node):
    if isinstance(m, LockV):
        if m.held:
            raise OutsideSubset("re-entrant acquisition of a non-reentrant lock (deadlock)")
        m.held = True
        I.ghost.lock_event("acquire", m)
        return m
    raise OutsideSubset(f"with-statement on {type(m).__name__}")


def ctx_exit(I, m, node):
    if isinstance(m, LockV):
        m.held = False
        I.ghost.lock_event("release", m)
        return
    raise OutsideSubset(f"with-statement on {type(m).__name__}")


def await_(I, v, node):
    return I.ghost.await_(v, node)


def cut_loop(I, node, env, spec, it=None):
    return I.ghost.cut_loop(node, env, spec, it)


# ========================================================================== stub modules


class NativeConstModule(ModuleV):
    pass


def stub_module(I, name):
    """models of the standard-library modules the repository imports"""
    b = I.builtins
    if name == "typing":
        m = ModuleV(name)

        class _T(dict):
            def __missing__(self, k):
                return TypingV()

            def __contains__(self, k):
                return True

        m.ns = _T()
        m.ns["TYPE_CHECKING"] = False
        m.ns["cast"] = BuiltinFn("typing.cast", lambda I, a, k, n: a[1])
        return m
    if name == "abc":
        m = ModuleV(name)
        m.ns["ABCMeta"] = TypingV()
        m.ns["ABC"] = b["object"]
        m.ns["abstractmethod"] = BuiltinFn("abstractmethod", lambda I, a, k, n: a[0])
        return m
    if name == "struct":
        m = ModuleV(name)
        m.ns["Struct"] = BuiltinFn("struct.Struct", lambda I, a, k, n: parse_struct_fmt(a[0]))
        m.ns["pack"] = BuiltinFn("struct.pack", lambda I, a, k, n: struct_pack(I, parse_struct_fmt(a[0]), a[1:], n))
        m.ns["unpack"] = BuiltinFn("struct.unpack", lambda I, a, k, n: struct_unpack(I, parse_struct_fmt(a[0]), a[1], n))
        m.ns["error"] = b["StructError"]
        return m
    if name == "enum":
        m = ModuleV(name)
        ie = ClassV("IntEnum", [], {}, builtin=True)
        ie.is_enum = True
        m.ns["IntEnum"] = ie
        e = ClassV("Enum", [], {}, builtin=True)
        e.is_enum = True
        m.ns["Enum"] = e
        return m
    if name == "dataclasses":
        m = ModuleV(name)

        def _dataclass(I, a, k, n):
            if a and isinstance(a[0], ClassV):
                return dataclass_decorate(I, a[0])
            frozen = k.get("frozen", False)
            eq_ = k.get("eq", True)
            return BuiltinFn("dataclass()", lambda I, a2, k2, n2: dataclass_decorate(I, a2[0], frozen, eq_))

        def _field(I, a, k, n):
            return FieldSpec(
                default=k.get("default"),
                default_factory=k.get("default_factory"),
                compare=k.get("compare", True),
                has_default="default" in k,
            )

        def _replace(I, a, k, n):
            obj = a[0]
            if not isinstance(obj, ObjV) or not obj.cls.is_dataclass:
                I.throw("TypeError", "replace() should be called on dataclass instances", node=n)
            kw = {}
            for fd in obj.cls.dc_fields:
                kw[fd.name] = k[fd.name] if fd.name in k else obj.fields[fd.name]
            extra = [x for x in k if x not in kw]
            if extra:
                I.throw("TypeError", f"replace() got unexpected field names {extra}", node=n)
            return I.instantiate(obj.cls, [], kw, n)

        m.ns["dataclass"] = BuiltinFn("dataclass", _dataclass)
        m.ns["field"] = BuiltinFn("field", _field)
        m.ns["replace"] = BuiltinFn("replace", _replace)
        m.ns["FrozenInstanceError"] = b["FrozenInstanceError"]
        return m
    if name == "functools":
        m = ModuleV(name)

        def _wraps(I, a, k, n):
            wrapped = a[0]

            def deco(I, a2, k2, n2):
                w = a2[0]
                if isinstance(w, FuncV):
                    w.wraps = wrapped
                return w

            return BuiltinFn("wraps()", deco)

        m.ns["wraps"] = BuiltinFn("wraps", _wraps)
        m.ns["cached_property"] = BuiltinFn("cached_property", lambda I, a, k, n: PropertyV(a[0], cached=True))
        return m
    if name == "logging":
        m = ModuleV(name)
        m.ns["getLogger"] = BuiltinFn("getLogger", lambda I, a, k, n: LoggerV())
        for lv in ("DEBUG", "INFO", "WARNING", "ERROR"):
            m.ns[lv] = 0
        return m
    if name == "warnings":
        m = ModuleV(name)
        m.ns["warn"] = BuiltinFn("warnings.warn", lambda I, a, k, n: I.ghost.note_effect("warnings.warn"))
        return m
    if name == "collections":
        m = ModuleV(name)

        def _defaultdict(I, a, k, n):
            return DictV(default_factory=a[0] if a else None)

        m.ns["defaultdict"] = BuiltinFn("defaultdict", _defaultdict)
        return m
    if name == "threading":
        m = ModuleV(name)
        m.ns["Lock"] = BuiltinFn("Lock", lambda I, a, k, n: LockV())
        return m
    if name == "socket":
        m = ModuleV(name, native=_socket)
        m.ns["getnameinfo"] = BuiltinFn("socket.getnameinfo", lambda I, a, k, n: I.ghost.getnameinfo(a, n))
        m.ns["gaierror"] = b["GaiError"]
        m.ns["AddressFamily"] = TypingV()
        return m
    if name == "ipaddress":
        m = ModuleV(name)
        v4 = ClassV("IPv4Address", [], {}, builtin=True)
        v6 = ClassV("IPv6Address", [], {}, builtin=True)
        m.ns["IPv4Address"] = v4
        m.ns["IPv6Address"] = v6
        I.builtins.setdefault("IPv4Address", v4)
        I.builtins.setdefault("IPv6Address", v6)
        m.ns["ip_address"] = BuiltinFn("ip_address", lambda I, a, k, n: I.ghost.ip_address(a[0], n))
        m.ns["AddressValueError"] = b["AddressValueError"]
        return m
    if name == "random":
        m = ModuleV(name)
        m.ns["uniform"] = BuiltinFn("random.uniform", lambda I, a, k, n: I.ghost.random_uniform(a[0], a[1], n))
        return m
    if name == "itertools":
        m = ModuleV(name)
        chain = ModuleV("itertools.chain")

        def _from_iterable(I, a, k, n):
            from . import quant

            if quant.is_symbolic_source(I, a[0]):
                return quant.ChainV(a[0])
            out = []
            for sub in iterate(I, a[0], n):
                out.extend(iterate(I, sub, n))
            return ListV(out)

        chain.ns["from_iterable"] = BuiltinFn("chain.from_iterable", _from_iterable)
        m.ns["chain"] = chain
        return m
    if name in ("os", "platform"):
        m = ModuleV(name)
        m.ns["name"] = "posix"
        m.ns["system"] = BuiltinFn("platform.system", lambda I, a, k, n: "Linux")
        m.ns["python_version_tuple"] = BuiltinFn("pvt", lambda I, a, k, n: ("3", "12", "1"))
        return m
    if name == "asyncio":
        return asyncio_module(I)
    return None


def asyncio_module(I):
    b = I.builtins
    m = ModuleV("asyncio")
    g = lambda nm: BuiltinFn("asyncio." + nm, lambda I, a, k, n, nm=nm: I.ghost.asyncio_call(nm, a, k, n))
    for nm in ("get_event_loop", "get_running_loop", "sleep", "create_task", "gather", "Event", "iscoroutinefunction", "ensure_future", "wait_for"):
        m.ns[nm] = g(nm)
    m.ns["CancelledError"] = b["CancelledError"]
    m.ns["IncompleteReadError"] = b["AsyncIncompleteReadError"]
    for nm in ("StreamReader", "DatagramTransport", "Task", "Handle", "BaseEventLoop", "DatagramProtocol", "BaseProtocol"):
        m.ns[nm] = ClassV(nm, [], {}, builtin=True)
    return m
