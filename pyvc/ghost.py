"""Per-path ghost state and the harness API (`vc`).

Ghost: event-loop model (DESIGN.md section 3), effect trace of opaque collaborators,
library axioms that need fresh symbols (find, ascii decode, getnameinfo, pow2).
VCV: the object handed to every harness function; pyvc/native.py is its CPython twin
used for replays.
"""
from __future__ import annotations

import ipaddress as _ipaddress
import socket as _socket

import z3

from . import lib, ropes
from .engine import OutsideSubset, PathAbort, VCError
from .objects import (
    BodyOf,
    BoundMethod,
    BuiltinFn,
    BuiltinMethod,
    ClassV,
    CoroV,
    FuncV,
    GenV,
    ObjV,
    Outcome,
)
from .values import (
    BytearrayV,
    DictV,
    EnumV,
    ListV,
    MapV,
    ObjSort,
    Opaque,
    SBool,
    SBytes,
    SeqV,
    SetV,
    SInt,
    SReal,
    SStr,
    SymListV,
    SymSet,
    Unit,
    View,
    as_const,
    int_term,
    is_intlike,
    mk_bool,
    mk_int,
    zint,
)


class VCV:
    """marker value: the harness API object"""


class Ghost:
    def __init__(self, I):
        self.I = I
        self.trace = []  # effect trace: list of (kind, payload...)
        self.pow2_fn = None
        self.loop = None
        self.vc = VCV()
        self.stash = {}
        self.witnesses = []  # (dict ident, key, value) materialised as quantifier witnesses (pyvc/quant.py)
        self.abstract_memo = {}
        self.replaying = False
        self.input_cache = {}
        self.abstract_names = {}
        self.drive_state = None

    # ------------------------------------------------------------------ misc hooks used by lib
    def note_effect(self, what, *payload):
        self.trace.append((what,) + tuple(payload))
        return None

    def lock_event(self, kind, lock):
        self.trace.append(("lock", kind, lock))

    def pow2(self, e):
        if isinstance(e, int):
            return 2**e
        if self.pow2_fn is None:
            self.pow2_fn = z3.Function("pow2", z3.IntSort(), z3.IntSort())
        t = zint(int_term(e))
        r = self.pow2_fn(t)
        ctx = self.I.ctx
        # defining equations instantiated at the use site
        ctx.assume(z3.Implies(t == 0, r == 1))
        ctx.assume(z3.Implies(t > 0, r == 2 * self.pow2_fn(t - 1)))
        ctx.assume(z3.Implies(t >= 0, r >= 1))
        return mk_int(r)

    def value_getattr(self, obj, name, node):
        if isinstance(obj, VCV):
            if name == "native":
                return False
            m = getattr(self, "vc_" + name, None)
            if m is None:
                raise VCError(f"unknown harness API vc.{name}")
            if name in self.INPUT_APIS:
                return BuiltinFn("vc." + name, lambda I, a, k, n, m=m: self._input(m, a, k, n))
            return BuiltinFn("vc." + name, lambda I, a, k, n, m=m: m(a, k, n))
        if isinstance(obj, Outcome):
            if name == "kind":
                return obj.kind
            if name == "value":
                return obj.value
            if name == "exc":
                return obj.exc
            if name == "exc_type":
                return obj.exc.cls if obj.exc is not None else None
        from .loopmodel import loop_getattr

        r = loop_getattr(self, obj, name, node)
        if r is not NotImplemented:
            return r
        return NotImplemented

    def call_value(self, f, args, kwargs, node):
        from .loopmodel import loop_call_value

        return loop_call_value(self, f, args, kwargs, node)

    # ------------------------------------------------------------------ abstract (loop-bearing) spec functions
    def fingerprint(self, v):
        """syntactic identity of an argument value (sound: equal fingerprints => equal values)"""
        from .values import deref

        v = deref(v)
        r = lib.as_rope(v)
        if r is not None:
            parts = [type(v).__name__]
            for s_ in r.segs:
                if isinstance(s_, Unit):
                    parts.append(("u", s_.b if isinstance(s_.b, int) else z3.simplify(s_.b).sexpr()))
                else:
                    parts.append(("v", s_.fn.name(), str(z3.simplify(zint(s_.off))), str(z3.simplify(zint(s_.n)))))
            return tuple(parts)
        if isinstance(v, (SInt, SBool, SReal)):
            return ("t", z3.simplify(v.t).sexpr())
        if isinstance(v, Opaque):
            return ("o", z3.simplify(v.t).sexpr())
        if isinstance(v, EnumV):
            return ("e", v.cls.qualname, self.fingerprint(v.value))
        if isinstance(v, tuple):
            return ("tuple",) + tuple(self.fingerprint(x) for x in v)
        if isinstance(v, (int, str, bool, float)) or v is None:
            return ("c", v)
        if isinstance(v, ObjV) and v.cls.is_dataclass and v.cls.frozen:
            return ("dc", v.cls.qualname) + tuple(self.fingerprint(v.fields[fd.name]) for fd in v.cls.dc_fields)
        if isinstance(v, ListV):
            return ("list",) + tuple(self.fingerprint(x) for x in v.items)
        if isinstance(v, SymListV):
            return ("symlist", self.fingerprint(v.prefix)) + tuple(self.fingerprint(x) for x in v.items)
        if isinstance(v, SeqV) and v.ident is not None:
            return ("seq", repr(v.ident), str(z3.simplify(zint(v.n))))
        return ("id", id(v))

    def abstract_call(self, f, args, kwargs, node):
        """a spec function that loops over symbolic data is, for its callers, an
        uninterpreted deterministic function of its arguments: equal (fingerprinted)
        arguments give the identical outcome, anything else an independent one"""
        from .interp import RaiseSig

        I = self.I
        spec = I.world.abstract[f.qualname]
        key = (f.qualname,) + tuple(self.fingerprint(a) for a in args) + tuple((k, self.fingerprint(v)) for k, v in sorted(kwargs.items()))
        if key not in self.abstract_memo:
            raises = list(lib.iterate(I, spec.get("raises", ()), node))
            k = I.ctx.choose(1 + len(raises))
            name = I.ctx.fresh_name("abs." + f.name)
            I.ctx.register_input(name + ".outcome", lambda m, k=k: k)
            if k == 0:
                self.abstract_names[key] = name
                self.abstract_memo[key] = ("ret", I.call(spec["gen"], [self.vc, name] + list(args), {}, node))
                I.ctx.note("abstract", f.qualname)
                return self.abstract_memo[key][1]
            else:
                self.abstract_memo[key] = ("raise", raises[k - 1])
            I.ctx.note("abstract", f.qualname)
        kind, v = self.abstract_memo[key]
        if kind == "ret":
            if self.abstract_names.get(key) is not None and spec.get("effects"):
                # same arguments, another copy of the state: replay the contract's effects
                self.replaying = True
                try:
                    return I.call(spec["gen"], [self.vc, self.abstract_names[key]] + list(args), {}, node)
                finally:
                    self.replaying = False
            return v
        raise RaiseSig(I.instantiate(v, [], {}, node), where=I.where(node))

    INPUT_APIS = ("lazy_dict", "lazy_set", "int", "bool", "real", "choice", "bytes", "bytes_fixed", "opaque", "opaque_seq", "intset", "map", "text", "seq", "sym_list")

    def _input(self, m, a, k, n):
        """inputs are deterministic by name: re-running an abstract contract (replay of its
        effects on another copy of the state) yields the very same symbolic values"""
        name = a[0]
        if self.replaying and name in self.input_cache:
            return self.input_cache[name]
        v = m(a, k, n)
        self.input_cache[name] = v
        return v

    def set_of_symbolic_list(self, lst, node):
        key = ("setof", self.fingerprint(lst))
        if key not in self.abstract_memo:
            o = Opaque(z3.Const(self.I.ctx.fresh_name("frozenset"), ObjSort), "frozenset")
            o.attrs["__source__"] = lst
            self.abstract_memo[key] = o
        return self.abstract_memo[key]

    def opaque_attr(self, obj, name, node):
        if obj.tag in ("option", "entry") and name == "build":
            # an opaque option encodes to some byte string determined by the option
            key = ("optenc", z3.simplify(obj.t).sexpr())
            if key not in self.abstract_memo:
                n = self.I.ctx.fresh_int("optenc.len")
                self.I.ctx.assume(n >= 0)
                fn = z3.Function(self.I.ctx.fresh_name("optenc.at"), z3.IntSort(), z3.IntSort())
                self.abstract_memo[key] = SBytes((View(fn, 0, n),))
            rope = self.abstract_memo[key]
            return BuiltinFn("option.build", lambda I, a, k, n, rope=rope: rope)
        raise OutsideSubset(f"attribute {name!r} of opaque {obj.tag} at {self.I.where(node)}")

    def map_method(self, m, name, args, kwargs, node):
        I = self.I
        if name == "get":
            k = m.key(I, args[0])
            if I.ctx.decide(z3.Select(m.dom, k)):
                return m.valwrap(I, z3.Select(m.val, k))
            return args[1] if len(args) > 1 else None
        if name == "pop":
            k = m.key(I, args[0])
            if I.ctx.decide(z3.Select(m.dom, k)):
                v = m.valwrap(I, z3.Select(m.val, k))
                m.dom = z3.Store(m.dom, k, z3.BoolVal(False))
                return v
            if len(args) > 1:
                return args[1]
            I.throw("KeyError", args[0], node=node)
        if name == "clear":
            m.dom = z3.K(m.dom.sort().domain(), z3.BoolVal(False))
            return None
        if name in ("items", "keys", "values"):
            return lib.ItemsView(m, name)
        raise OutsideSubset(f"dict.{name} on a symbolic map")

    def int_of(self, v, node):
        raise OutsideSubset(f"int() of {type(v).__name__} at {self.I.where(node)}")

    def str_of(self, v, node):
        if isinstance(v, ObjV) and v.cls.builtin and v.cls.name in ("IPv4Address", "IPv6Address"):
            # the textual form of an address is determined by, and determines, the address
            txt = self.I.builtins.get("IPText")
            if txt is None:
                txt = self.I.builtins["IPText"] = ClassV("IPText", [], {}, builtin=True)
            return ObjV(txt, {"packed": v.fields["packed"], "version": v.cls.name})
        return "<str>"

    def list_of_seq(self, v, node):
        return SymListV(SeqV(v.n, v.at, "tuple", ident=v.ident))

    def join_gen(self, gen, node):
        """b"".join(<expr> for x in <sequence of symbolic length>): an abstract byte string
        that is a deterministic function of the sequence and of the element encoder.  The
        encoder is evaluated once on a Skolem element (it must not raise there: element
        preconditions belong to the caller's contract); two joins over the same sequence
        whose encoders produce the same bytes for that element are the same string."""
        from .interp import RaiseSig

        I = self.I
        g = gen.node
        if len(g.generators) != 1 or g.generators[0].ifs:
            return NotImplemented
        seq = I.eval(g.generators[0].iter, gen.env)
        if isinstance(seq, SymListV):
            seq = lib.symlist_as_seq(I, seq)
        if not isinstance(seq, SeqV) or isinstance(seq.n, int):
            return NotImplemented
        sid = repr(seq.ident) if seq.ident is not None else f"seq@{id(seq)}"
        if not hasattr(self, "join_sk"):
            self.join_sk, self.join_memo = {}, {}
        if sid not in self.join_sk:
            k = z3.Int(f"joinsk!{sid}")
            I.ctx.assume(k >= 0)
            self.join_sk[sid] = k
        k = self.join_sk[sid]
        from .objects import Env

        cenv = Env(parent=gen.env)
        I.assign_target(g.generators[0].target, seq.at(k), cenv)
        try:
            r = I.eval(g.elt, cenv)
        except RaiseSig as exc:
            raise OutsideSubset(f"join over a symbolic sequence whose element encoder may raise ({exc.exc.cls.name}) at {I.where(node)}")
        rr = lib.as_rope(r)
        if rr is None:
            I.throw("TypeError", "sequence item: expected a bytes-like object", node=node)
        key = (sid, self.fingerprint(r))
        if key not in self.join_memo:
            n = I.ctx.fresh_int("join.len")
            I.ctx.assume(n >= 0)
            fn = z3.Function(I.ctx.fresh_name("join.at"), z3.IntSort(), z3.IntSort())
            self.join_memo[key] = SBytes((View(fn, 0, n),))
            I.ctx.note("axiom", "b''.join over a symbolic sequence is an uninterpreted function of (sequence, element encoder)")
        return self.join_memo[key]

    def ascii_decode(self, rope, node):
        """bytes.decode('ascii'): UnicodeDecodeError iff some byte >= 128"""
        I = self.I
        ctx = I.ctx
        n = rope.length()
        if isinstance(n, int):
            bs = ropes.units(ctx, rope, n)
            for b in bs:
                if isinstance(b, int):
                    if b >= 128:
                        I.throw("UnicodeDecodeError", node=node)
                elif not ctx.decide(zint(b) < 128):
                    I.throw("UnicodeDecodeError", node=node)
            c = rope.concrete()
            if c is not None:
                return c.decode("ascii")
            return SStr(SBytes(Unit(b) for b in bs))
        # symbolic length: either some index holds a byte >= 128 (error) or all are < 128
        bad = ctx.fresh_int("badidx")
        if ctx.decide(z3.And(bad >= 0, bad < zint(n), ropes.at_term(ctx, rope, bad) >= 128)):
            I.throw("UnicodeDecodeError", node=node)
        j = z3.Int(ctx.fresh_name("j"))
        body = ropes.at_term(ctx, rope, j) < 128
        ctx.assume(z3.ForAll([j], z3.Implies(z3.And(j >= 0, j < zint(n)), body)))
        if not ctx.feasible():
            raise PathAbort()
        return SStr(rope)

    def bytes_find(self, rope, sub, node, last=False):
        """bytes.find / bytes.rfind of a single byte: first / last index or -1"""
        I = self.I
        ctx = I.ctx
        if sub is None or sub.length() != 1:
            raise OutsideSubset("bytes.find with a needle other than one byte")
        c = ropes.units(ctx, sub, 1)[0]
        n = rope.length()
        if isinstance(n, int):
            bs = ropes.units(ctx, rope, n)
            order = list(enumerate(bs))
            if last:
                order.reverse()
            for i, b in order:
                e = (b == c) if isinstance(b, int) and isinstance(c, int) else ctx.decide(zint(b) == zint(c))
                if e:
                    return i
            return -1
        r = ctx.fresh_int("find")
        j = z3.Int(ctx.fresh_name("j"))
        if ctx.decide(r >= 0):
            ctx.assume(r < zint(n))
            ctx.assume(ropes.at_term(ctx, rope, r) == zint(c))
            rng = z3.And(j > r, j < zint(n)) if last else z3.And(j >= 0, j < r)
            ctx.assume(z3.ForAll([j], z3.Implies(rng, ropes.at_term(ctx, rope, j) != zint(c))))
            if not ctx.feasible():
                raise PathAbort()  # this case of the axiom cannot occur on this path
            return SInt(r)
        ctx.assume(r == -1)
        ctx.assume(z3.ForAll([j], z3.Implies(z3.And(j >= 0, j < zint(n)), ropes.at_term(ctx, rope, j) != zint(c))))
        if not ctx.feasible():
            raise PathAbort()
        return -1

    # ------------------------------------------------------------------ ipaddress / socket
    def ip_class(self, version):
        return self.I.builtins["IPv4Address" if version == 4 else "IPv6Address"]

    def ip_address_ctor(self, cls, v, node):
        I = self.I
        width = 4 if cls.name == "IPv4Address" else 16
        r = lib.as_rope(v)
        if r is not None and not isinstance(v, SStr):
            n = r.length()
            if not ropes._cmp(I.ctx, n, "==", width):
                I.throw("AddressValueError", "wrong packed length", node=node)
            return ObjV(cls, {"packed": SBytes(Unit(b) for b in ropes.units(I.ctx, r, width))})
        if isinstance(v, str):
            try:
                a = (_ipaddress.IPv4Address if width == 4 else _ipaddress.IPv6Address)(v)
            except ValueError:
                I.throw("AddressValueError", v, node=node)
            return ObjV(cls, {"packed": SBytes.from_concrete(a.packed)})
        if isinstance(v, int):
            return ObjV(cls, {"packed": SBytes.from_concrete(v.to_bytes(width, "big"))})
        raise OutsideSubset(f"ip address from {type(v).__name__}")

    def ip_address(self, v, node):
        I = self.I
        if isinstance(v, str):
            try:
                a = _ipaddress.ip_address(v)
            except ValueError:
                I.throw("ValueError", v, node=node)
            return ObjV(self.ip_class(a.version), {"packed": SBytes.from_concrete(a.packed)})
        if isinstance(v, Opaque) and "ip" in v.attrs:
            return v.attrs["ip"]
        raise OutsideSubset("ip_address of symbolic text")

    def getnameinfo(self, args, node):
        """axiom: with NI_NUMERICHOST|NI_NUMERICSERV the result is the numeric host text
        and the decimal port text of the sockaddr"""
        I = self.I
        sockaddr, flags = args[0], args[1]
        if isinstance(sockaddr, tuple) and all(isinstance(x, (str, int)) for x in sockaddr):
            try:
                h, p = _socket.getnameinfo(sockaddr, flags)
                return (h, p)
            except Exception:
                I.throw("GaiError", node=node)
        if isinstance(sockaddr, Opaque) and "nameinfo" in sockaddr.attrs:
            return sockaddr.attrs["nameinfo"]
        if isinstance(sockaddr, Opaque):
            # logging-only uses (format_address): opaque text
            host = Opaque(z3.Const(I.ctx.fresh_name("host"), ObjSort), "hosttext")
            return (host, "<port>")
        raise OutsideSubset("getnameinfo of a partially symbolic sockaddr")

    def random_uniform(self, a, b, node):
        """axiom: a <= result <= b (for a <= b)"""
        I = self.I
        r = z3.Real(I.ctx.fresh_name("uniform"))
        ta, tb = lib.real_term(a), lib.real_term(b)
        I.ctx.assume(z3.Or(z3.And(ta <= r, r <= tb), z3.And(tb <= r, r <= ta)))
        self.trace.append(("random.uniform", a, b, SReal(r)))
        return SReal(r)

    # ------------------------------------------------------------------ asyncio (loopmodel)
    def asyncio_call(self, name, args, kwargs, node):
        from .loopmodel import asyncio_call

        return asyncio_call(self, name, args, kwargs, node)

    def await_(self, v, node):
        from .loopmodel import await_value

        return await_value(self, v, node)

    def cut_loop(self, node, env, spec, it=None):
        from .loopcut import cut_loop

        return cut_loop(self.I, node, env, spec, it)

    # ================================================================== harness API
    def _name(self, args, kwargs, default):
        return args[0] if args else kwargs.get("name", default)

    def vc_int(self, args, kwargs, node):
        """vc.int(name, lo=None, hi=None): arbitrary integer with lo <= x <= hi"""
        ctx = self.I.ctx
        name = args[0]
        lo = args[1] if len(args) > 1 else kwargs.get("lo")
        hi = args[2] if len(args) > 2 else kwargs.get("hi")
        t = z3.Int(name)
        if lo is not None:
            ctx.assume(t >= zint(int_term(lo)))
        if hi is not None:
            ctx.assume(t <= zint(int_term(hi)))
        ctx.register_input(name, lambda m, t=t: m.eval(t, model_completion=True).as_long())
        return SInt(t)

    def vc_bool(self, args, kwargs, node):
        ctx = self.I.ctx
        name = args[0]
        t = z3.Bool(name)
        ctx.register_input(name, lambda m, t=t: bool(z3.is_true(m.eval(t, model_completion=True))))
        return SBool(t)

    def vc_real(self, args, kwargs, node):
        ctx = self.I.ctx
        name = args[0]
        lo = args[1] if len(args) > 1 else kwargs.get("lo")
        hi = args[2] if len(args) > 2 else kwargs.get("hi")
        t = z3.Real(name)
        if lo is not None:
            ctx.assume(t >= lib.real_term(lo))
        if hi is not None:
            ctx.assume(t <= lib.real_term(hi))

        def ex(m, t=t):
            v = m.eval(t, model_completion=True)
            if z3.is_rational_value(v):
                return v.numerator_as_long() / v.denominator_as_long()
            return float(v.approx(10).as_decimal(10).rstrip("?"))

        ctx.register_input(name, ex)
        return SReal(t)

    def vc_choice(self, args, kwargs, node):
        """vc.choice(name, options): case split over concrete alternatives"""
        ctx = self.I.ctx
        name, options = args[0], args[1]
        opts = list(lib.iterate(self.I, options, node))
        k = ctx.choose(len(opts))
        ctx.register_input(name, lambda m, k=k: k)
        return opts[k]

    def vc_bytes(self, args, kwargs, node):
        """vc.bytes(name, minlen=0, maxlen=None): arbitrary byte string"""
        ctx = self.I.ctx
        name = args[0]
        minlen = args[1] if len(args) > 1 else kwargs.get("minlen", 0)
        maxlen = args[2] if len(args) > 2 else kwargs.get("maxlen")
        n = z3.Int(name + ".len")
        ctx.assume(n >= zint(int_term(minlen)))
        if maxlen is not None:
            ctx.assume(n <= zint(int_term(maxlen)))
        fn = z3.Function(name + ".at", z3.IntSort(), z3.IntSort())
        rope = SBytes((View(fn, 0, n),))
        ctx.size_hint(n)
        ctx.register_input(name, lambda m, rope=rope: ropes.model_bytes(m, rope))
        return rope

    def vc_bytes_fixed(self, args, kwargs, node):
        """vc.bytes_fixed(name, n): n arbitrary bytes, n concrete"""
        ctx = self.I.ctx
        name, n = args[0], args[1]
        fn = z3.Function(name + ".at", z3.IntSort(), z3.IntSort())
        rope = SBytes(Unit(ropes.view_byte(ctx, fn, j)) for j in range(n))
        ctx.register_input(name, lambda m, rope=rope: ropes.model_bytes(m, rope))
        return rope

    def vc_opaque(self, args, kwargs, node):
        """vc.opaque(name, tag='obj'): a value of which only identity is known"""
        ctx = self.I.ctx
        name = args[0]
        tag = args[1] if len(args) > 1 else kwargs.get("tag", "obj")
        t = z3.Const(name, ObjSort)
        ctx.register_input(name, lambda m, t=t: str(m.eval(t, model_completion=True)))
        return Opaque(t, tag)

    def vc_opaque_seq(self, args, kwargs, node):
        """vc.opaque_seq(name, tag): tuple of arbitrary length of opaque values"""
        ctx = self.I.ctx
        name = args[0]
        tag = args[1] if len(args) > 1 else kwargs.get("tag", "obj")
        n = z3.Int(name + ".len")
        ctx.assume(n >= 0)
        maxlen = kwargs.get("maxlen")
        if maxlen is not None:
            ctx.assume(n <= maxlen)
        ctx.size_hint(n)
        f = z3.Function(name + ".at", z3.IntSort(), ObjSort)

        def ex(m, n=n, f=f):
            k = m.eval(n, model_completion=True).as_long()
            return [str(m.eval(f(z3.IntVal(i)), model_completion=True)) for i in range(min(k, 4096))]

        ctx.register_input(name, ex)
        return SeqV(n, lambda i, f=f, tag=tag: Opaque(f(zint(i)), tag), "tuple", ident=name)

    def vc_map(self, args, kwargs, node):
        """vc.map(name, key=desc, val=desc, default=None): dict with arbitrary contents"""
        from .valenc import KeySort, Val, model_value

        ctx = self.I.ctx
        name = args[0]
        dk = kwargs["key"]
        dv = kwargs["val"]
        dom = z3.Array(name + ".dom", Val, z3.BoolSort())
        val = z3.Array(name + ".val", Val, Val)
        default = kwargs.get("default")
        like = kwargs.get("like")
        if like is not None:
            # arbitrary contents for a dict the real constructor made: keeps ITS default factory
            if not isinstance(like, DictV):
                raise OutsideSubset("vc.map(like=...) of something that is not a dict")
            default = like.default_factory
        m = MapV(KeySort(dk), dom, val, dk, dv, default_factory=default, ident=name)
        m.inv = kwargs.get("inv")

        def ex(model, m=m):
            out = []
            seen = set()
            for kt in m.touched:
                kj = model_value(model, m.desc_key, kt)
                key = repr(kj)
                if key in seen:
                    continue
                seen.add(key)
                if z3.is_true(model.eval(z3.Select(m.dom0, kt), model_completion=True)):
                    out.append([kj, model_value(model, m.desc_val, z3.Select(m.val0, kt))])
            return out

        ctx.register_input(name, ex)
        return m

    def vc_lazy_dict(self, args, kwargs, node):
        """vc.lazy_dict(name, gen_value, gen_key=None, default=None, key_from_json=None): a dict
        with arbitrary, unbounded contents; the value of a key is gen_value(vc, name_i, key)
        the first time the key is found present, gen_key(vc, name_j) makes an arbitrary key
        for an entry reached only by iteration"""
        from .valenc import Val
        from .values import LazyDictV
        from . import lazydict

        ctx = self.I.ctx
        name = args[0]
        gen_value = args[1]
        gen_key = args[2] if len(args) > 2 else kwargs.get("gen_key")
        dom = z3.Function(name + ".has", Val, z3.BoolSort())
        m = z3.Int(name + ".size")
        ctx.assume(m >= 0)
        d = LazyDictV(name, dom, m, gen_value, gen_key, kwargs.get("default"))
        I = self.I
        ctx.register_input(name, lambda model, d=d: lazydict.model_entries(I, d, model))
        return d

    def vc_lazy_set(self, args, kwargs, node):
        """vc.lazy_set(name, gen_key): a set with arbitrary, unbounded contents"""
        from .values import LazySetV

        d = self.vc_lazy_dict([args[0], BuiltinFn("true", lambda I, a, k, n: True), args[1] if len(args) > 1 else kwargs.get("gen_key")], {}, node)
        return LazySetV(d)

    def vc_snapshot(self, args, kwargs, node):
        """vc.snapshot(name1=obj1, ...): shallow states of everything mutable that hangs off
        the given objects of repository classes (frames: see vc.changed)"""
        from .loopcut import heap_snapshot

        return ("snapshot", heap_snapshot(self.I, None, (), [(v, k) for k, v in kwargs.items()]))

    def vc_changed(self, args, kwargs, node):
        """vc.changed(snap): sorted paths (e.g. 'ts.store[...]') of the objects that are not
        in the state the snapshot recorded"""
        from .loopcut import frame_violations

        return ListV(frame_violations(self.I, args[0][1]))

    def vc_witnesses(self, args, kwargs, node):
        """vc.witnesses(): [(key, value)] of the entries of unbounded dicts that any()/all()
        materialised as witness / counterexample on this path, outermost first"""
        return ListV([(k, v) for _, k, v in self.witnesses])

    def vc_attr_is_read(self, args, kwargs, node):
        """vc.attr_is_read(name): does the code under verification read an attribute of that
        name anywhere (x.name in a load position)?  An attribute that is only ever written
        (a statistics counter, a debugging aid) cannot influence what the code does."""
        import ast as _ast

        name = args[0]
        w = self.I.world
        cache = getattr(w, "_attr_reads", None)
        if cache is None:
            cache = set()
            for mname, tree in w.asts.items():
                if not mname.startswith("someip"):
                    continue
                for n in _ast.walk(tree):
                    if isinstance(n, _ast.Attribute) and isinstance(n.ctx, _ast.Load):
                        cache.add(n.attr)
                    elif isinstance(n, _ast.Call) and isinstance(n.func, _ast.Name) and n.func.id in ("getattr", "hasattr"):
                        if len(n.args) >= 2 and isinstance(n.args[1], _ast.Constant) and isinstance(n.args[1].value, str):
                            cache.add(n.args[1].value)
                        else:
                            cache.add("*")
                    elif isinstance(n, _ast.Call) and isinstance(n.func, _ast.Name) and n.func.id == "vars":
                        cache.add("*")
            w._attr_reads = cache
        return name in cache or "*" in cache

    def vc_fields(self, args, kwargs, node):
        """vc.fields(obj): attribute name -> value of an instance, as a dict (frames: 'nothing
        else of the object changed')"""
        o = args[0]
        if not isinstance(o, ObjV):
            raise OutsideSubset("vc.fields of a non-instance")
        return DictV([[k, v] for k, v in o.fields.items()])

    def vc_coro_info(self, args, kwargs, node):
        """vc.coro_info(c): (qualified name of the coroutine function, args, kwargs) of a
        coroutine object that has not run yet (symbolic hooks only)"""
        c = args[0]
        if not isinstance(c, CoroV):
            raise OutsideSubset("vc.coro_info of a non-coroutine")
        f = c.func
        while f.wraps is not None:
            f = f.wraps
        kw = DictV([[k, v] for k, v in c.kwargs.items()])
        return (f.qualname, tuple(c.args), kw)

    def vc_copy(self, args, kwargs, node):
        """vc.copy(x): independent copy of a mutable harness value with equal contents"""
        v = args[0]
        if isinstance(v, MapV):
            c = MapV(v.keysort, v.dom, v.val, v.desc_key, v.desc_val, kwargs.get("default", v.default_factory), v.ident, touched=v.touched)
            c.dom0, c.val0 = v.dom0, v.val0
            c.inv = v.inv
            return c
        if isinstance(v, DictV):
            return DictV(v.pairs, v.default_factory)
        if isinstance(v, ListV):
            return ListV(v.items)
        if isinstance(v, SetV):
            return SetV(v.items, v.frozen)
        raise OutsideSubset(f"vc.copy of {type(v).__name__}")

    def vc_sym_list(self, args, kwargs, node):
        """vc.sym_list(name): list with an arbitrary (opaque, immutable) prefix; models the
        accumulator of an append-only loop at an arbitrary iteration"""
        pre = self.vc_opaque_seq([args[0], "elem"], {}, node)
        return SymListV(pre)

    def vc_list_tail(self, args, kwargs, node):
        """vc.list_tail(l): what was appended to a vc.sym_list since its creation"""
        from .values import deref

        l = deref(args[0])
        if isinstance(l, SymListV):
            return ListV(l.items)
        if isinstance(l, ListV):
            return ListV(l.items)  # an ordinary list has no symbolic prefix
        raise OutsideSubset("vc.list_tail of a value that is not a list")

    def vc_text(self, args, kwargs, node):
        """vc.text(name, minlen=0, maxlen=None, exclude=None): arbitrary ASCII str; `exclude`
        is one byte value that does not occur"""
        ctx = self.I.ctx
        name = args[0]
        minlen = kwargs.get("minlen", 0)
        maxlen = kwargs.get("maxlen")
        exclude = kwargs.get("exclude")
        n = z3.Int(name + ".len")
        ctx.assume(n >= zint(int_term(minlen)))
        if maxlen is not None:
            ctx.assume(n <= zint(int_term(maxlen)))
        fn = z3.Function(name + ".at", z3.IntSort(), z3.IntSort())
        j = z3.Int(name + ".j")
        body = z3.And(fn(j) >= 0, fn(j) < 128)
        if exclude is not None:
            body = z3.And(body, fn(j) != exclude)
        ctx.assume(z3.ForAll([j], body, patterns=[fn(j)]))
        rope = SBytes((View(fn, 0, n),))
        ctx.size_hint(n)

        def ex(m, rope=rope):
            h = ropes.model_bytes(m, rope)
            if isinstance(h, dict):
                raise ValueError("text too long")
            return bytes.fromhex(h).decode("latin-1")

        ctx.register_input(name, ex)
        return SStr(rope)

    def vc_seq(self, args, kwargs, node):
        """vc.seq(name, gen): tuple of arbitrary length whose element i is gen(vc, name[i])"""
        ctx = self.I.ctx
        name, gen = args[0], args[1]
        n = z3.Int(name + ".len")
        ctx.assume(n >= 0)
        ctx.size_hint(n)
        memo = {}
        terms = {}
        I = self.I

        def at(i):
            key = str(z3.simplify(zint(i))) if not isinstance(i, int) else str(i)
            if key not in memo:
                terms[key] = zint(i)
                memo[key] = I.call(gen, [self.vc, f"{name}[{key}]"], {}, node)
            return memo[key]

        def ex(m):
            return {
                "len": m.eval(n, model_completion=True).as_long(),
                "indices": {k: m.eval(t, model_completion=True).as_long() for k, t in terms.items()},
            }

        ctx.register_input(name, ex)
        return SeqV(n, at, "tuple", ident=name)

    def vc_intset(self, args, kwargs, node):
        """vc.intset(name): arbitrary frozenset of ints (membership symbolic)"""
        ctx = self.I.ctx
        name = args[0]
        probe = args[1] if len(args) > 1 else kwargs.get("probe")
        arr = z3.Array(name, z3.IntSort(), z3.BoolSort())
        s = SymSet(arr)

        def ex(m, arr=arr, probe=probe):
            # report membership of the probe values only (the set is otherwise arbitrary)
            out = []
            for p in probe or []:
                pt = zint(int_term(p))
                pv = m.eval(pt, model_completion=True).as_long()
                if z3.is_true(m.eval(z3.Select(arr, pt), model_completion=True)):
                    out.append(pv)
            return sorted(set(out))

        if probe is not None:
            probe = list(lib.iterate(self.I, probe, node))
        ctx.register_input(name, lambda m: ex(m, arr, probe))
        return s

    def vc_forall(self, args, kwargs, node):
        """vc.forall(lo, hi, fn): for all integers m with lo <= m < hi: fn(m).  fn must be
        fork-free on a symbolic m (term-level sequence access, arithmetic, ==)."""
        I = self.I
        lo, hi, fn = args[0], args[1], args[2]
        m = z3.Int(I.ctx.fresh_name("q"))
        n0 = I.ctx.n_real
        self.raw_index = True
        try:
            body = I.call(fn, [SInt(m)], {}, node)
        finally:
            self.raw_index = False
        if I.ctx.n_real != n0:
            raise OutsideSubset("vc.forall: the body forked on the bound variable")
        bt = body.t if isinstance(body, SBool) else z3.BoolVal(bool(body))
        rng = z3.And(m >= zint(int_term(lo)), m < zint(int_term(hi)))
        return SBool(z3.ForAll([m], z3.Implies(rng, bt)))

    def vc_count(self, args, kwargs, node):
        """vc.count(bools): how many of the (possibly symbolic) booleans hold -- no case split"""
        from .values import mk_int

        total = 0
        for b in lib.iterate(self.I, args[0], node):
            if isinstance(b, SBool):
                total = total + z3.If(b.t, z3.IntVal(1), z3.IntVal(0))
            elif isinstance(b, bool):
                total = total + (1 if b else 0)
            else:
                raise OutsideSubset("vc.count of a non-boolean")
        return mk_int(total) if not isinstance(total, int) else total

    def vc_ite(self, args, kwargs, node):
        """vc.ite(c, a, b): a if c else b for integers / booleans, without a case split"""
        from .values import mk_bool, mk_int

        c, a, b = args
        if isinstance(c, bool):
            return a if c else b
        if not isinstance(c, SBool):
            raise OutsideSubset("vc.ite on a non-boolean condition")
        if isinstance(a, (bool, SBool)) and isinstance(b, (bool, SBool)):
            ta = a.t if isinstance(a, SBool) else z3.BoolVal(a)
            tb = b.t if isinstance(b, SBool) else z3.BoolVal(b)
            return mk_bool(z3.If(c.t, ta, tb))
        return mk_int(z3.If(c.t, zint(int_term(a)), zint(int_term(b))))

    def vc_raw(self, args, kwargs, node):
        """vc.raw(fn): evaluate fn() reading symbolic sequences as total functions of the
        index (no bounds checks, no forks) -- for instantiating quantified facts by hand"""
        self.raw_index = True
        try:
            return self.I.call(args[0], [], {}, node)
        finally:
            self.raw_index = False

    def vc_assume(self, args, kwargs, node):
        I = self.I
        c = args[0]
        if isinstance(c, bool):
            if not c:
                raise PathAbort()
            return None
        if isinstance(c, SBool):
            I.ctx.assume(c.t)
        else:
            if not I.truthy(c, node):
                raise PathAbort()
            return None
        if not I.ctx.feasible():
            raise PathAbort()
        return None

    def vc_check(self, args, kwargs, node):
        I = self.I
        c, label = args[0], args[1]
        if isinstance(c, SBool):
            I.ctx.check(c.t, label, I.where(node))
        elif isinstance(c, bool):
            I.ctx.check(c, label, I.where(node))
        else:
            I.ctx.check(bool(I.truthy(c, node)), label, I.where(node))
        return None

    def vc_fail(self, args, kwargs, node):
        self.I.ctx.check(False, args[0], self.I.where(node))
        return None

    def vc_cover(self, args, kwargs, node):
        if self.I.ctx.feasible():
            self.I.ctx.cover(args[0])
        return None

    def vc_note(self, args, kwargs, node):
        self.I.ctx.note(args[0], args[1])
        return None

    def vc_body(self, args, kwargs, node):
        return BodyOf(args[0])

    def vc_outcome(self, args, kwargs, node):
        from .interp import CutSig, RaiseSig

        f = args[0]
        depth, stack = self.I.call_depth, list(self.I.stack)
        try:
            v = self.I.call(f, list(args[1:]), kwargs, node)
            return Outcome("ret", value=v)
        except RaiseSig as r:
            self.I.call_depth, self.I.stack = depth, stack
            return Outcome("raise", exc=r.exc)
        except CutSig as c:
            self.I.call_depth, self.I.stack = depth, stack
            return Outcome("cut", value=c.loopname)

    def vc_install_loop(self, args, kwargs, node):
        """vc.install_loop(loop): asyncio.get_event_loop() etc. of the verified code reach it"""
        self.loop = args[0]
        return args[0]

    # ------------------------------------------------------------------ coroutines as sequential procedures
    def on_sleep(self, delay, node):
        """await asyncio.sleep(d) inside a coroutine driven by vc.drive: the coroutine may be
        cancelled here (CancelledError raised at this await), otherwise the clock advances by
        exactly d and the harness' interference hook runs (anything may happen meanwhile)"""
        I = self.I
        d = self.drive_state
        if d is None:
            raise OutsideSubset("await asyncio.sleep() outside vc.drive")
        k = d["count"]
        d["count"] = k + 1
        if d["cancellable"] and not d["cancelled"]:
            if I.ctx.choose(2) == 0:
                d["cancelled"] = True
                if "cancel_at" not in I.ctx.inputs:
                    I.ctx.register_input("cancel_at", lambda m, k=k: k)
                d["log"].items.append(("cancel",))
                if d.get("on_cancel") is not None:
                    I.call(d["on_cancel"], [], {}, node)
                I.throw("CancelledError", node=node)
        d["log"].items.append(("sleep", delay))
        if self.loop is not None:
            now = I.getattr(self.loop, "now", node)
            I.setattr(self.loop, "now", lib.binop(I, "Add", now, delay, node), node)
        if d["on_sleep"] is not None:
            I.call(d["on_sleep"], [k, delay], {}, node)
        return None

    def vc_drive(self, args, kwargs, node):
        """vc.drive(coro, log, on_sleep=None, cancellable=False): run the coroutine as a
        sequential procedure; every `await asyncio.sleep(d)` appends ("sleep", d) to log,
        advances the loop clock and calls on_sleep(k, d); if cancellable, the coroutine may be
        cancelled at any one sleep (("cancel",) is logged and CancelledError raised there)"""
        coro, log = args[0], args[1]
        saved = self.drive_state
        self.drive_state = {
            "log": log,
            "on_sleep": args[2] if len(args) > 2 else kwargs.get("on_sleep"),
            "cancellable": bool(args[3] if len(args) > 3 else kwargs.get("cancellable", False)),
            "on_cancel": args[4] if len(args) > 4 else kwargs.get("on_cancel"),
            "cancelled": False,
            "count": 0,
        }
        try:
            return self.await_(coro, node)
        finally:
            self.drive_state = saved

    def vc_run(self, args, kwargs, node):
        """vc.run(coroutine): drive a coroutine to completion (native: on a fresh event loop)"""
        return self.await_(args[0], node)

    def vc_stash(self, args, kwargs, node):
        self.stash[args[0]] = args[1]
        return None

    def vc_stashed(self, args, kwargs, node):
        """vc.stashed(name, native_default): value stored by a loop hook on this path"""
        if args[0] in self.stash:
            return self.stash[args[0]]
        return args[1] if len(args) > 1 else None

    def vc_arm_cut(self, args, kwargs, node):
        return None  # native twin only: stop the real loop after its first iteration

    def _recorder(self, obj, name, delegate):
        I = self.I
        calls = ListV()

        def fn(I_, a, k, n):
            calls.items.append(tuple(a) + tuple(k[x] for x in sorted(k)))
            if delegate is None:
                return None
            return I.call(delegate, list(a), dict(k), n)

        rec = BuiltinFn(f"recorder:{name}", fn)
        if isinstance(obj, ObjV):
            obj.fields[name] = rec
        elif isinstance(obj, Opaque):
            obj.attrs[name] = rec
        else:
            raise OutsideSubset(f"vc.stub/spy on {type(obj).__name__}")
        return calls

    def vc_stub(self, args, kwargs, node):
        """vc.stub(obj, name, fn=None): replace obj.name by a recorder (optionally delegating to fn)"""
        return self._recorder(args[0], args[1], args[2] if len(args) > 2 else kwargs.get("fn"))

    def vc_spy(self, args, kwargs, node):
        """vc.spy(obj, name): record the calls of obj.name, then run the original"""
        orig = self.I.getattr(args[0], args[1], node)
        return self._recorder(args[0], args[1], orig)

    def vc_check_eq(self, args, kwargs, node):
        a, b, label = args[0], args[1], args[2]
        self.prove_eq(a, b, label, node)
        return None

    def vc_same_outcome(self, args, kwargs, node):
        o1, o2, label = args[0], args[1], args[2]
        ctx = self.I.ctx
        where = self.I.where(node)
        if o1.kind != o2.kind:
            d1 = o1.exc.cls.name if o1.exc is not None else "return"
            d2 = o2.exc.cls.name if o2.exc is not None else "return"
            ctx.check(False, f"{label}.kind[{d1}|{d2}]", where)
            return None
        ctx.check(True, label + ".kind", where)
        if o1.kind == "raise":
            ctx.check(o1.exc.cls is o2.exc.cls, f"{label}.exc_class[{o1.exc.cls.name}|{o2.exc.cls.name}]", where)
            return None
        self.prove_eq(o1.value, o2.value, label + ".value", node)
        return None

    def vc_is_exc(self, args, kwargs, node):
        """vc.is_exc(outcome, cls): outcome raised an instance of cls"""
        o, cls = args
        return o.kind == "raise" and o.exc.cls.issubclass(cls)

    def vc_lock_discipline(self, args, kwargs, node):
        """vc.lock_discipline(map_name, label): every access to the named map recorded on
        this path happened while a lock was held (ownership clause, from the ghost trace)"""
        name, label = args[0], args[1]
        held = 0
        ok = True
        n = 0
        for ev in self.trace:
            if ev[0] == "lock":
                held += 1 if ev[1] == "acquire" else -1
            elif ev[0] == "map-access" and ev[1] == name:
                n += 1
                if held <= 0:
                    ok = False
        self.I.ctx.check(ok, label, self.I.where(node))
        return n

    def vc_trace(self, args, kwargs, node):
        return ListV([tuple(t) for t in self.trace])

    # ------------------------------------------------------------------ structural equality proof
    def prove_eq(self, a, b, label, node):
        from .values import deref

        a, b = deref(a), deref(b)
        I = self.I
        ctx = I.ctx
        where = I.where(node)
        ra, rb = lib.as_rope(a), lib.as_rope(b)
        if ra is not None and rb is not None:
            if isinstance(a, SStr) != isinstance(b, SStr):
                ctx.check(False, label + ".type", where)
                return
            ropes.prove_eq(ctx, ra, rb, label, where)
            return
        if isinstance(a, SStr) and isinstance(b, str):
            ropes.prove_eq(ctx, a.rope, SBytes.from_concrete(b.encode("latin-1")), label, where)
            return
        if isinstance(b, SStr) and isinstance(a, str):
            return self.prove_eq(b, a, label, node)
        if isinstance(a, tuple) and isinstance(b, tuple):
            if len(a) != len(b):
                ctx.check(False, label + ".len", where)
                return
            for i, (x, y) in enumerate(zip(a, b)):
                self.prove_eq(x, y, f"{label}[{i}]", node)
            if not a:
                ctx.check(True, label, where)
            return
        if isinstance(a, ListV) and isinstance(b, ListV):
            return self.prove_eq(tuple(a.items), tuple(b.items), label, node)
        if isinstance(a, SymListV) and isinstance(b, SymListV) and a.prefix is b.prefix:
            return self.prove_eq(tuple(a.items), tuple(b.items), label, node)
        if isinstance(a, SymListV):
            a = lib.symlist_as_seq(I, a)
        if isinstance(b, SymListV):
            b = lib.symlist_as_seq(I, b)
        if isinstance(a, (SeqV, tuple, ListV)) and isinstance(b, (SeqV, tuple, ListV)):
            sa, sb = self._as_seq(a), self._as_seq(b)
            ok = ctx.check(zint(sa.n) == zint(sb.n), label + ".len", where)
            # element-wise at a Skolem index; the index range holds only inside this scope
            i = ctx.fresh_int("sk")
            ctx.push_premise(z3.And(i >= 0, i < zint(sa.n)))
            try:
                self.prove_eq(sa.at(i), sb.at(i), label + "[i]", node)
            finally:
                ctx.pop_premise()
            return
        if isinstance(a, ObjV) and isinstance(b, ObjV) and a.cls.is_dataclass and a.cls is b.cls:
            for fd in a.cls.dc_fields:
                if fd.compare:
                    self.prove_eq(a.fields[fd.name], b.fields[fd.name], f"{label}.{fd.name}", node)
            return
        if isinstance(a, ObjV) and isinstance(b, ObjV) and a.cls.builtin and a.cls is b.cls and "packed" in a.fields:
            self.prove_eq(a.fields["packed"], b.fields["packed"], label + ".packed", node)
            return
        if isinstance(a, MapV) and isinstance(b, MapV):
            from .valenc import Val

            k = z3.Const(ctx.fresh_name("skkey"), Val)
            ctx.check(z3.Select(a.dom, k) == z3.Select(b.dom, k), label + ".domain", where)
            ctx.check(z3.Implies(z3.Select(a.dom, k), z3.Select(a.val, k) == z3.Select(b.val, k)), label + ".values", where)
            return
        f = lib.eq(I, a, b, node)
        ctx.check(f, label, where)

    def _as_seq(self, v):
        if isinstance(v, SeqV):
            return v
        items = v if isinstance(v, tuple) else v.items
        return SeqV(len(items), lambda i, items=items: lib._tuple_at(self.I, items, i), "tuple")
