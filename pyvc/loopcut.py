"""Loop contracts: cut a loop at its invariant (filled in by the codec tier)."""
from __future__ import annotations

from .engine import OutsideSubset


def cut_loop(I, node, env, spec):
    raise OutsideSubset("loop contracts are not implemented yet")
