"""Loop contracts: a loop with a registered contract is cut at its head.

A contract is registered by a sidecar module as

    LOOPS = {("someip.sd.SOMEIPDatagramProtocol.datagram_received", 0): {
                 "havoc": {"data": gen_data, ...},    # gen(vc, name) -> arbitrary value
                 "inv": inv,                           # inv(vc, vars) -> bool   (optional)
                 "variant": variant,                   # variant(vc, vars) -> int (optional)
                 "init": init,                         # init(vc, vars): state that reaches the loop (optional)
                 "head": head,                         # head(vc, vars, entering): ghost bookkeeping (optional)
                 "post": post,                         # post(vc, vars): after one body execution (optional)
             }}

keyed by the qualified name of the real function and the ordinal of the loop in it (source
order of `for`/`while` statements, nested ones included).  Semantics, for a `while`:

  1. inv(vars) is checked in the state that reaches the loop          [<fn>.loop<k>.inv_init]
  2. the havoc variables are replaced by arbitrary values, inv is assumed
  3. condition true : the body runs once from that arbitrary state; if it falls through,
                      inv is checked again [inv_step], the variant must have decreased
                      and be bounded below [variant], and the path ends (cut)
     condition false: execution continues after the loop
  An exception, `return` or `break` inside the body leaves the loop from the arbitrary
  iteration, exactly as in the real program.

`for x in <seq of symbolic length>` is cut the same way: an arbitrary index k with
0 <= k < len is chosen, x = seq[k]; "vars" additionally holds "$k".
"""
from __future__ import annotations

import ast

import z3

from .engine import OutsideSubset, PathAbort, VCError
from .objects import FuncV
from .values import DictV, ListV, SBool, SeqV, SInt, int_term, mk_int, zint


def comp_nodes(fnode):
    """comprehensions / generator expressions of a function in source order"""
    out = []

    def visit(n):
        for c in ast.iter_child_nodes(n):
            if isinstance(c, (ast.FunctionDef, ast.AsyncFunctionDef, ast.Lambda, ast.ClassDef)):
                continue
            if isinstance(c, (ast.ListComp, ast.SetComp, ast.DictComp, ast.GeneratorExp)):
                out.append(c)
            visit(c)

    visit(fnode)
    return out


def loop_nodes(fnode):
    """for/while statements of a function in source order (not descending into nested defs)"""
    out = []

    def visit(n):
        for c in ast.iter_child_nodes(n):
            if isinstance(c, (ast.FunctionDef, ast.AsyncFunctionDef, ast.Lambda, ast.ClassDef)):
                continue
            if isinstance(c, (ast.For, ast.While)):
                out.append(c)
            visit(c)

    visit(fnode)
    return out


def register_loops(I, loops: DictV):
    for key, spec in loops.pairs:
        is_comp = len(key) == 3 and key[1] == "comp"
        qual, ordinal = key[0], key[-1]
        # "pkg.mod.Class.method/inner": a function defined inside the method
        outer, *inner = qual.split("/")
        f = I.world.funcs_by_qualname.get(outer)
        if f is None:
            raise VCError(f"loop contract for unknown function {qual}")
        fnode = f.node
        for nm in inner:
            found = [n for n in ast.walk(fnode) if isinstance(n, (ast.FunctionDef, ast.AsyncFunctionDef)) and n.name == nm and n is not fnode]
            if len(found) != 1:
                fnode = None
                break
            fnode = found[0]
        if fnode is None:
            I.world.broken_loops[outer] = f"loop contract {qual}: the inner function is gone"
            continue
        nodes = comp_nodes(fnode) if is_comp else loop_nodes(fnode)
        if ordinal >= len(nodes):
            # the loop the contract speaks about is gone: the function can no longer be
            # verified deductively (bounded stand-in takes over), see Interp.call_function
            I.world.broken_loops[outer] = f"loop contract {qual}#{ordinal} cannot be attached: the function has only {len(nodes)} loops"
            continue
        if not isinstance(spec, DictV):
            raise VCError("loop contract must be a dict")
        d = {k: v for k, v in spec.pairs}
        d["name"] = f"{qual.split('.', 2)[-1].replace('/', '.')}.{'comp' if is_comp else 'loop'}{ordinal}"
        I.world.loopspecs[id(nodes[ordinal])] = d


class Poison:
    """value of a local that the loop body assigns but the loop contract does not describe
    at an arbitrary iteration: any use is outside the subset (never a silent first-iteration
    value)"""

    def __init__(self, name, loop):
        self.name, self.loop = name, loop

    def __repr__(self):
        return f"<unknown {self.name} at an arbitrary iteration of {self.loop}>"


def assigned_names(stmts):
    out = set()
    for st in stmts:
        for n in ast.walk(st):
            if isinstance(n, (ast.FunctionDef, ast.AsyncFunctionDef, ast.Lambda, ast.ClassDef)):
                continue
            if isinstance(n, ast.Name) and isinstance(n.ctx, (ast.Store, ast.Del)):
                out.add(n.id)
    return out


def _snapshot(v):
    """hooks see the values of mutable locals as they are at the hook, not later"""
    from .values import BytearrayV, SetV, SymListV, deref

    v = deref(v)
    if isinstance(v, BytearrayV):
        return BytearrayV(v.rope)
    if isinstance(v, ListV):
        return ListV(v.items)
    if isinstance(v, SymListV):
        return SymListV(v.prefix, v.items)
    if isinstance(v, SetV):
        return SetV(v.items, v.frozen)
    if isinstance(v, DictV):
        return DictV(v.pairs, v.default_factory)
    return v


def _vars_dict(I, env, extra=None):
    d = DictV()
    for k, v in env.vars.items():
        if not k.startswith("$"):
            d.pairs.append([k, _snapshot(v)])
    for k, v in (extra or {}).items():
        d.pairs.append([k, v])
    return d


# ----------------------------------------------------------------------------------------
# frame of a cut loop: an arbitrary iteration starts from the heap that reaches the loop, so
# whatever the body changes in objects that existed before it is loop-carried state the
# contract has to account for (havoc it at the head -- "havoc_heap" -- or list it under
# "modifies" with the argument why the next iteration does not depend on it)


def _is_repo_obj(v):
    from .objects import ObjV

    if not isinstance(v, ObjV):
        return False
    for c in v.cls.mro:
        if "VC_MODEL" in c.ns:
            return False
    for c in v.cls.mro:
        m = getattr(c, "module", None)
        if m is not None and str(getattr(m, "name", "")).startswith("someip"):
            return True
    return False


def _ref(I, x):
    from .objects import BoundMethod, ObjV
    from .values import BytearrayV, LazyDictV, LazySetV, MapV, SetV, SymListV, deref

    x = deref(x)
    if isinstance(x, (ListV, SymListV, DictV, BytearrayV, LazyDictV, LazySetV, MapV)) or (isinstance(x, SetV) and not x.frozen):
        return ("id", id(x))
    if isinstance(x, ObjV) and not (x.cls.is_dataclass and x.cls.frozen):
        return ("id", id(x))
    if isinstance(x, BoundMethod):
        return ("bm", id(x.self_), id(x.func))
    try:
        return I.ghost.fingerprint(x)
    except Exception:
        return ("id", id(x))


def _shallow(I, x):
    from .objects import ObjV
    from .values import BytearrayV, LazyDictV, LazySetV, MapV, SetV, SymListV

    if isinstance(x, ObjV):
        return tuple((k, _ref(I, v)) for k, v in x.fields.items())
    if isinstance(x, ListV):
        return ("l", id(x.sym)) + tuple(_ref(I, v) for v in x.items)
    if isinstance(x, SymListV):
        return ("sl", _ref(I, x.prefix)) + tuple(_ref(I, v) for v in x.items)
    if isinstance(x, DictV):
        return tuple((_ref(I, k), _ref(I, v)) for k, v in x.pairs)
    if isinstance(x, SetV):
        return tuple(_ref(I, v) for v in x.items)
    if isinstance(x, BytearrayV):
        return I.ghost.fingerprint(x)
    if isinstance(x, MapV):
        return (x.dom.get_id(), x.val.get_id())
    if isinstance(x, LazySetV):
        x = x.d
    if isinstance(x, LazyDictV):
        # entries materialised by reading are as they were; written ones differ from their origin
        dirty = tuple((_ref(I, e[0]), _ref(I, e[1]), _ref(I, e[2])) for e in x.overlay if not (e[1] is e[3] and e[2] is e[4]))
        return (x.version, x.base_alive, dirty)
    return None


def heap_snapshot(I, env, exempt=(), roots=None):
    """shallow states of the mutable objects the loop body can reach: the locals of the
    function (and enclosing functions), objects of repository classes and the containers
    hanging off them.  Objects of harness / model classes are boundaries (recorders, the
    event-loop model: write-only or modelled separately)."""
    from .objects import BoundMethod, ObjV
    from .values import LazyDictV, LazySetV, SetV, SymListV, deref

    seen = {}
    names = {}
    stack = list(roots) if roots is not None else []
    e = env
    while e is not None and e.func is not None:
        for k, v in e.vars.items():
            stack.append((v, k))
        e = e.parent
    skip = {id(deref(x)) for x in exempt}
    while stack:
        x, path = stack.pop(0)  # breadth first: an object is named by a shortest path
        x = deref(x)
        if isinstance(x, BoundMethod):
            stack.append((x.self_, path))
            continue
        if isinstance(x, tuple):
            for i, y in enumerate(x):
                stack.append((y, f"{path}[{i}]"))
            continue
        if id(x) in seen or id(x) in skip:
            continue
        if isinstance(x, ObjV):
            if not _is_repo_obj(x):
                continue
            if x.cls.is_dataclass and x.cls.frozen:
                for k, v in x.fields.items():
                    stack.append((v, f"{path}.{k}"))
                continue
            seen[id(x)] = (x, _shallow(I, x))
            names[id(x)] = path
            for k, v in x.fields.items():
                stack.append((v, f"{path}.{k}"))
            continue
        sh = _shallow(I, x)
        if sh is None:
            continue
        seen[id(x)] = (x, sh)
        names[id(x)] = path
        if isinstance(x, ListV):
            for i, v in enumerate(x.items):
                stack.append((v, f"{path}[{i}]"))
        elif isinstance(x, SymListV):
            for i, v in enumerate(x.items):
                stack.append((v, f"{path}[+{i}]"))
        elif isinstance(x, DictV):
            for k, v in x.pairs:
                stack.append((v, f"{path}[...]"))
        elif isinstance(x, SetV):
            for v in x.items:
                stack.append((v, f"{path}{{...}}"))
        elif isinstance(x, (LazyDictV, LazySetV)):
            d = x.d if isinstance(x, LazySetV) else x
            for e_ in d.overlay:
                stack.append((e_[1], f"{path}[...]"))
    return seen, names


def frame_violations(I, snap):
    seen, names = snap
    out = []
    from .objects import ObjV

    for oid, (x, sh) in seen.items():
        now = _shallow(I, x)
        if now == sh:
            continue
        if isinstance(x, ObjV):
            # name the attributes that were added, removed or rebound
            a, b = dict(sh), dict(now)
            for k in list(a) + [k for k in b if k not in a]:
                if a.get(k, "<absent>") != b.get(k, "<absent>"):
                    out.append(f"{names[oid]}.{k}")
        else:
            out.append(names[oid])
    return sorted(set(out))


def _hook(I, fn, args):
    """a contract hook is harness code about the loop's locals: if it raises, the loop is no
    longer the one the contract was written for (the function leaves the verified subset;
    the bounded stand-in takes over) -- never an exception of the code under test"""
    from .interp import RaiseSig

    try:
        return I.call(fn, args, {}, None)
    except RaiseSig as e:
        raise OutsideSubset(f"loop contract hook {getattr(fn, 'qualname', fn)!s} failed ({e}): the loop no longer matches its contract")


def _call_bool(I, fn, args):
    r = _hook(I, fn, args)
    if isinstance(r, SBool):
        return r.t
    return bool(I.truthy(r))


def cut_loop(I, node, env, spec, it=None):
    from .interp import BreakSig, ContinueSig

    ctx = I.ctx
    vc = I.ghost.vc
    name = spec["name"]
    where = I.where(node)
    inv = spec.get("inv")
    variant = spec.get("variant")
    head = spec.get("head")
    havoc = spec.get("havoc")
    extra = {}

    is_for = isinstance(node, ast.For)
    seq = None
    if is_for:
        seq = it if it is not None else I.eval(node.iter, env)
        from .values import LazyDictV

        from .values import LazySetV

        if isinstance(seq, LazySetV):
            seq = seq.d
        if isinstance(seq, LazyDictV):
            seq = I.lib.ItemsView(seq, "keys")
        if isinstance(seq, I.lib.ItemsView) and isinstance(seq.d, LazyDictV):
            from . import lazydict

            view = lazydict.items_seq(I, seq.d, seq.kind, node)
            seq = ListV(view) if isinstance(view, list) else view

    init = spec.get("init")
    if init is not None:
        _hook(I, init, [vc, _vars_dict(I, env, {"$iter": seq, "$k": 0} if is_for else None)])
    if inv is not None:
        ctx.check(_call_bool(I, inv, [vc, _vars_dict(I, env, {"$iter": seq, "$k": 0} if is_for else None)]), f"{name}.inv_init", where)

    listed = set()
    if isinstance(havoc, DictV):
        for vname, gen in havoc.pairs:
            listed.add(vname)
            env.assign(vname, I.call(gen, [vc, ctx.fresh_name(f"{name}.{vname}")], {}, None))
    hh = spec.get("havoc_heap")
    if hh is not None:
        # heap locations the body modifies hold arbitrary values at an arbitrary iteration
        _hook(I, hh, [vc, _vars_dict(I, env, {"$iter": seq} if is_for else None)])
    # soundness of the cut: every other local the body assigns holds an unknown value at an
    # arbitrary iteration (harmless if the body assigns it before using it)
    target_names = assigned_names([node.target]) if is_for else set()
    keep = spec.get("keep")
    keep = set(I.lib.iterate(I, keep, node)) if keep is not None else set()
    kept_values = {}
    for vname in assigned_names(node.body) - listed - target_names:
        if vname in keep:
            # the contract claims the body changes it only on paths that leave the loop:
            # checked after the iteration (obligation <loop>.unmodified[<name>])
            kept_values[vname] = env.vars.get(vname)
        elif vname in env.vars:
            env.vars[vname] = Poison(vname, name)

    if is_for:
        n = I.lib.length(I, seq, node)
        k = ctx.fresh_int(f"{name}.k")
        ctx.assume(k >= 0)
        extra = {"$k": SInt(k), "$iter": seq}
        cond = ctx.decide(k < zint(int_term(n)))
    else:
        if inv is not None:
            c = _call_bool(I, inv, [vc, _vars_dict(I, env)])
            ctx.assume(c)
            if not ctx.feasible():
                raise PathAbort()
        cond = I.truthy(I.eval(node.test, env), node)

    if is_for and inv is not None:
        c = _call_bool(I, inv, [vc, _vars_dict(I, env, extra)])
        ctx.assume(c)
        if not ctx.feasible():
            raise PathAbort()

    if not cond:
        # loop finished (for: k == len, i.e. every element has been processed)
        if is_for:
            ctx.assume(extra["$k"].t == zint(int_term(n)))
        if head is not None:
            _hook(I, head, [vc, _vars_dict(I, env, extra), False])
        I.exec_block(node.orelse, env)
        return

    if is_for:
        x = I.lib.getitem(I, seq, extra["$k"], node)
        I.assign_target(node.target, x, env)
        extra = dict(extra)
        extra["$target"] = x  # the element of this iteration, whatever the loop variables are called
    if head is not None:
        _hook(I, head, [vc, _vars_dict(I, env, extra), True])
    modifies = spec.get("modifies")
    exempt = list(I.lib.iterate(I, _hook(I, modifies, [vc, _vars_dict(I, env, extra)]), node)) if modifies is not None else []
    # locals the contract havocs are arbitrary at the head already
    exempt = exempt + [env.vars[n_] for n_ in listed if n_ in env.vars]
    snap = heap_snapshot(I, env, exempt)
    v0 = None
    if variant is not None:
        v0 = _hook(I, variant, [vc, _vars_dict(I, env, extra)])
    from .interp import ReturnSig

    try:
        I.exec_block(node.body, env)
    except BreakSig:
        # "one arbitrary iteration" speaks about every element only if no iteration ends the
        # loop for the others: a contract whose loop may stop early says so ("may_exit")
        if not spec.get("may_exit"):
            ctx.check(False, f"{name}.no_early_exit", where)
        return
    except ReturnSig:
        if not spec.get("may_exit"):
            ctx.check(False, f"{name}.no_early_exit", where)
        raise
    except ContinueSig:
        pass
    if is_for:
        extra = dict(extra)
        extra["$k"] = mk_int(zint(int_term(extra["$k"])) + 1)
    for vname, v0_ in kept_values.items():
        e_ = I.lib.eq(I, env.vars.get(vname), v0_, node)
        ctx.check(e_, f"{name}.unmodified[{vname}]", where)
    for path in frame_violations(I, snap):
        # not a refutation of anything: the contract no longer describes the loop
        ctx.undecided(f"{name}.frame[{path}]", where, f"the loop body changes {path}, which exists before the loop and is neither havocked at the head nor listed in the loop contract's frame: an arbitrary iteration is not covered by the cut")
    post = spec.get("post")
    if post is not None:
        _hook(I, post, [vc, _vars_dict(I, env, extra)])
    if inv is not None:
        ctx.check(_call_bool(I, inv, [vc, _vars_dict(I, env, extra)]), f"{name}.inv_step", where)
    if variant is not None:
        v1 = _hook(I, variant, [vc, _vars_dict(I, env, extra)])
        t0, t1 = zint(int_term(v0)), zint(int_term(v1))
        ctx.check(z3.And(t1 < t0, t0 >= 0) if not (isinstance(t0, int) and isinstance(t1, int)) else (t1 < t0 and t0 >= 0), f"{name}.variant", where)
    ctx.cover(f"{name}.iteration")
    from .interp import CutSig

    raise CutSig(name)


def cut_comprehension(I, node, env, spec):
    """[elt for x in <sequence of symbolic length>] under a contract: one arbitrary element
    is computed (hooks see it as "$elt"), or -- all elements done -- the result is a list of
    the right length with arbitrary (opaque) elements.  Hooks as for loops."""
    from .interp import CutSig
    from .objects import Env
    from .values import LazyDictV, Opaque, ObjSort, SymListV, deref

    ctx = I.ctx
    vc = I.ghost.vc
    name = spec["name"]
    where = I.where(node)
    g = node.generators[0]
    if len(node.generators) != 1:
        raise OutsideSubset(f"comprehension contract {name}: only a single generator is supported")
    seq = deref(I.eval(g.iter, env))
    from .values import LazySetV

    if isinstance(seq, LazySetV):
        seq = seq.d
    if isinstance(seq, LazyDictV):
        seq = I.lib.ItemsView(seq, "keys")
    if isinstance(seq, I.lib.ItemsView) and isinstance(seq.d, LazyDictV):
        from . import lazydict

        view = lazydict.items_seq(I, seq.d, seq.kind, node)
        seq = ListV(view) if isinstance(view, list) else view
    init, inv, head, post, havoc = spec.get("init"), spec.get("inv"), spec.get("head"), spec.get("post"), spec.get("havoc")
    if init is not None:
        _hook(I, init, [vc, _vars_dict(I, env, {"$iter": seq, "$k": 0})])
    if inv is not None:
        ctx.check(_call_bool(I, inv, [vc, _vars_dict(I, env, {"$iter": seq, "$k": 0})]), f"{name}.inv_init", where)
    if isinstance(havoc, DictV):
        for vname, gen in havoc.pairs:
            env.assign(vname, I.call(gen, [vc, ctx.fresh_name(f"{name}.{vname}")], {}, None))
    n = I.lib.length(I, seq, node)
    k = ctx.fresh_int(f"{name}.k")
    ctx.assume(k >= 0)
    extra = {"$k": SInt(k), "$iter": seq}
    entering = ctx.decide(k < zint(int_term(n)))
    if inv is not None:
        ctx.assume(_call_bool(I, inv, [vc, _vars_dict(I, env, extra)]))
        if not ctx.feasible():
            raise PathAbort()
    if entering:
        cenv = Env(parent=env)
        cenv.func = env.func if not env.is_class else None
        x_ = I.lib.getitem(I, seq, extra["$k"], node)
        I.assign_target(g.target, x_, cenv)
        both = {}
        both.update(extra)
        both["$target"] = x_
        for kk, vv in cenv.vars.items():
            both[kk] = vv
        if head is not None:
            _hook(I, head, [vc, _vars_dict(I, env, both), True])
        included = True
        for cond in g.ifs:
            if not I.truthy(I.eval(cond, cenv), cond):
                included = False
                break
        both["$included"] = included
        both["$elt"] = I.eval(node.elt, cenv) if included else None
        both["$k"] = mk_int(k + 1)
        if post is not None:
            _hook(I, post, [vc, _vars_dict(I, env, both)])
        if inv is not None:
            ctx.check(_call_bool(I, inv, [vc, _vars_dict(I, env, both)]), f"{name}.inv_step", where)
        ctx.cover(f"{name}.iteration")
        raise CutSig(name)
    ctx.assume(k == zint(int_term(n)))
    m = int_term(n) if isinstance(int_term(n), int) else zint(int_term(n))
    if g.ifs:
        # a filtered comprehension keeps some of the elements: 0 <= len(result) <= n; the
        # exit hook may relate it to its model of the filter ("$result_len")
        m = ctx.fresh_int(f"{name}.result_len")
        ctx.assume(z3.And(m >= 0, m <= zint(int_term(n))))
        extra = dict(extra)
        extra["$result_len"] = SInt(m)
    if head is not None:
        _hook(I, head, [vc, _vars_dict(I, env, extra), False])
    f = z3.Function(ctx.fresh_name(f"{name}.result"), z3.IntSort(), ObjSort)
    res = SymListV(SeqV(m, lambda i, f=f: Opaque(f(zint(i)), "elem"), "list", ident=ctx.fresh_name(name)))
    result_hook = spec.get("result")
    if result_hook is not None:
        _hook(I, result_hook, [vc, res])
    return res
