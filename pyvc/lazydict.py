"""Operations on LazyDictV (see pyvc/values.py)."""
from __future__ import annotations

import z3

from . import lib, ropes
from .engine import OutsideSubset, PathAbort
from .objects import ObjV
from .values import EnumV, LazyDictV, ListV, Opaque, SBool, SeqV, SetV, SInt, as_const, int_term, mk_int, zint


def enc_key(I, k):
    """key -> Val term (structural): ints, bools, None, opaque values, tuples, frozen
    dataclass instances (their compare=True fields), empty frozensets"""
    from .valenc import Val

    if k is None:
        return Val.none
    if isinstance(k, bool):
        return Val.bool(z3.BoolVal(k))
    if isinstance(k, SBool):
        return Val.bool(k.t)
    if isinstance(k, (int, SInt, EnumV)):
        return Val.int(zint(int_term(k)))
    if isinstance(k, Opaque):
        return Val.obj(k.t)
    if isinstance(k, tuple):
        t = Val.nil
        for x in reversed(k):
            t = Val.cons(enc_key(I, x), t)
        return t
    if isinstance(k, ObjV) and k.cls.is_dataclass:
        t = Val.nil
        for fd in reversed([fd for fd in k.cls.dc_fields if fd.compare]):
            t = Val.cons(enc_key(I, k.fields[fd.name]), t)
        return t
    if isinstance(k, ObjV) and "packed" in k.fields:
        r = k.fields["packed"]
        n = r.length()
        return enc_key(I, tuple(mk_int(b) for b in ropes.units(I.ctx, r, n)))
    if isinstance(k, SetV):
        return enc_key(I, ("set",) + tuple(k.items)) if k.items else Val.nil
    if isinstance(k, str):
        return Val.int(z3.IntVal(hash(k) % (1 << 61)))
    raise OutsideSubset(f"value {k!r} cannot be the key of a lazily materialised dict")


def _dec(I, c):
    return c if isinstance(c, bool) else I.ctx.decide(c)


def lookup(I, d: LazyDictV, key, node=None):
    """-> overlay entry [key, value, present] for key (materialising it if untouched)"""
    for e in d.overlay:
        if _dec(I, lib.eq(I, key, e[0], node)):
            _apply_pending(I, e)
            return e
    present = False
    if d.base_alive:
        present = I.ctx.decide(d.base_dom(enc_key(I, key)))
    if present:
        I.ctx.assume(zint(d.m) >= 1)
        d.m = as_const(ropes.zsub(d.m, 1))
        n = d.n_touch
        d.n_touch += 1
        d.touched_log.append((n, key))
        v = I.call(d.gen_value, [I.ghost.vc, f"{d.ident}[{n}]", key], {}, node)
        e = [key, v, True, v, True]
    else:
        e = [key, None, False, None, False]
    d.overlay.append(e)
    if present and d.universals:
        # what is known about EVERY entry of the base holds for this one
        e.append([(kind, fact) for kind, fact in d.universals])
        _apply_pending(I, e)
    return e


def _apply_pending(I, e):
    """universal facts not yet applied to this entry (an application that was interrupted --
    e.g. inside a speculative evaluation -- is resumed at the next look at the entry)"""
    if len(e) < 6 or not e[5]:
        return
    while e[5]:
        kind, fact = e[5][0]
        fact(e[0] if kind == "keys" else e[3] if kind == "values" else (e[0], e[3]))
        e[5].pop(0)


def getitem(I, d, key, node=None):
    e = lookup(I, d, key, node)
    if e[2]:
        return e[1]
    if d.default_factory is not None:
        v = I.call(d.default_factory, [], {}, node)
        e[1], e[2] = v, True
        return v
    I.throw("KeyError", key, node=node)


_WRITTEN = object()  # origin of an entry that was written without being read first


def setitem(I, d, key, value, node=None):
    """d[key] = value does not depend on whether the key was there before: no case split on
    the untouched base (which merely loses the key if it had it)"""
    for e in d.overlay:
        if _dec(I, lib.eq(I, key, e[0], node)):
            e[1], e[2] = value, True
            return
    if d.base_alive:
        inbase = d.base_dom(enc_key(I, key))
        I.ctx.assume(z3.Implies(inbase, zint(d.m) >= 1))
        d.m = as_const(ropes.zsub(d.m, z3.If(inbase, z3.IntVal(1), z3.IntVal(0))))
    d.overlay.append([key, value, True, _WRITTEN, _WRITTEN])


def delitem(I, d, key, node=None):
    e = lookup(I, d, key, node)
    if not e[2]:
        I.throw("KeyError", key, node=node)
    e[1], e[2] = None, False


def contains(I, d, key, node=None):
    return lookup(I, d, key, node)[2]


def length(I, d):
    n = sum(1 for e in d.overlay if e[2])
    if d.base_alive:
        return mk_int(as_const(ropes.zadd(d.m, n)))
    return n


def clear(I, d):
    for e in d.overlay:
        e[1], e[2] = None, False
    d.base_alive = False
    d.m = 0
    d.version += 1
    d.universals = []


def items_seq(I, d, kind, node=None):
    """the dict's items / keys / values as a sequence of symbolic length: the entries
    present in the overlay first, then the untouched base entries, materialised on access"""
    explicit = [(e[0], e[1]) for e in d.overlay if e[2]]
    p = len(explicit)
    n = as_const(ropes.zadd(d.m if d.base_alive else 0, p))
    memo = {}
    version = d.version  # the view is of the contents at this moment

    def proj(e):
        if kind == "items":
            return (e[0], e[1])
        if kind == "keys":
            return e[0]
        return e[1]

    def at(i):
        if isinstance(i, int):
            if i < p:
                return proj(explicit[i])
        else:
            for c in range(p):
                if I.ctx.decide(zint(i) == c):
                    return proj(explicit[c])
        key_i = str(z3.simplify(zint(i)))
        if key_i not in memo:
            if d.gen_key is None:
                raise OutsideSubset(f"iteration over the untouched part of {d.ident} needs a key generator")
            j = len(d.it_memo)
            k = I.call(d.gen_key, [I.ghost.vc, f"{d.ident}.it{j}"], {}, node)
            d.it_memo[j] = k
            # an entry of the base that this path has not touched yet
            for e in d.overlay:
                c = lib.eq(I, k, e[0], node)
                if c is True:
                    raise PathAbort()
                if c is not False:
                    I.ctx.assume(z3.Not(c))
            I.ctx.assume(d.base_dom(enc_key(I, k)))
            if not I.ctx.feasible():
                raise PathAbort()
            if d.version == version:
                e = lookup(I, d, k, node)
                memo[key_i] = (e[0], e[1])
            else:
                # the dict was cleared after this view was taken: the entry existed then
                nn = d.n_touch
                d.n_touch += 1
                d.touched_log.append((nn, k))
                v = I.call(d.gen_value, [I.ghost.vc, f"{d.ident}[{nn}]", k], {}, node)
                d.overlay.append([k, None, False, None, False])
                memo[key_i] = (k, v)
        return proj(memo[key_i])

    if isinstance(n, int):
        return [at(i) for i in range(n)]
    return SeqV(n, at, "list", ident=None)


def model_entries(I, d, model):
    from .valenc import model_any

    out = []
    for n, key in d.touched_log:
        out.append({"n": n, "key": model_any(model, enc_key(I, key))})
    return out
