"""Path exploration and obligation discharge.

A *harness* is a callable executed once per path.  Symbolic branching goes through
PathCtx.decide(); exploration is by re-execution with a recorded decision prefix, so no
interpreter state is ever copied.  Every query is LIA + uninterpreted functions (+ BV
for the general bit-operations), see DESIGN.md section 2.
"""
from __future__ import annotations

import os
import subprocess
import tempfile
import time

import z3


FORKPROF = {} if os.environ.get("PYVC_FORKPROF") else None


def _has_quantifier(t, _seen=None):
    """does the formula contain a quantifier (then the solver may answer `unknown`)"""
    if _seen is None:
        _seen = set()
    stack = [t]
    while stack:
        x = stack.pop()
        i = x.get_id()
        if i in _seen:
            continue
        _seen.add(i)
        if z3.is_quantifier(x):
            return True
        if z3.is_app(x):
            stack.extend(x.children())
    return False


class VCError(Exception):
    """checker-level error (exit 3), never a violation"""


class OutsideSubset(VCError):
    """the real code uses a construct the generator does not model"""


class PathAbort(Exception):
    """current path is infeasible or was cut (assume False)"""


class TooManyPaths(VCError):
    pass


class WouldFork(Exception):
    """raised by decide() in no-fork (speculative) mode when a condition is undetermined"""


class CheckResult:
    __slots__ = ("label", "status", "model", "solver", "secs", "where", "reason", "path")

    def __init__(self, label, status, model=None, solver="z3", secs=0.0, where="", reason="", path=None):
        self.label = label
        self.status = status  # 'proved' | 'refuted' | 'unknown'
        self.model = model  # dict input-name -> concrete python value (refuted only)
        self.solver = solver
        self.secs = secs
        self.where = where
        self.reason = reason
        self.path = path

    def as_dict(self):
        return {
            "label": self.label,
            "status": self.status,
            "model": self.model,
            "solver": self.solver,
            "secs": round(self.secs, 4),
            "where": self.where,
            "reason": self.reason,
        }


def _cvc5_check(smt2: str, timeout_s: float):
    """second opinion on the SMT-LIB dump of a query: returns 'sat'|'unsat'|'unknown'"""
    with tempfile.NamedTemporaryFile("w", suffix=".smt2", delete=False, dir=os.environ.get("PYVC_TMP") or None) as f:
        f.write("(set-logic ALL)\n")
        f.write(smt2)
        f.write("\n(check-sat)\n")
        path = f.name
    try:
        out = subprocess.run(
            ["/usr/bin/cvc5", "--lang=smt2", f"--tlimit={int(timeout_s * 1000)}", path],
            capture_output=True,
            text=True,
            timeout=timeout_s + 5,
        )
        first = (out.stdout.strip().splitlines() or ["unknown"])[0].strip()
        if first in ("sat", "unsat"):
            return first
        return "unknown"
    except Exception:
        return "unknown"
    finally:
        try:
            os.unlink(path)
        except OSError:
            pass


class PathCtx:
    """state of one path: solver, path condition, decisions, inputs, checks"""

    def __init__(self, engine, prefix):
        self.engine = engine
        self.prefix = prefix
        self.trace = []
        self.solver = z3.Solver()
        self.solver.set("timeout", engine.branch_timeout_ms)
        self.n_fresh = 0
        self.inputs = {}  # name -> extractor(model) -> python value
        self.input_order = []
        self.checks = []
        self.covers = set()
        self.notes = []  # axioms / inlined helpers / opaque calls used on this path
        self.n_pc = 0
        self.n_real = 0  # decisions proper (speculative entries of the trace not counted)
        self.no_fork = False
        self.interp = None
        self.hard = False  # a quantified fact is on the path: `unknown` answers are possible
        self.tainted = False  # a refuted/undecided obligation was assumed: pc may be unsat
        self.premises = []

    # -- naming ------------------------------------------------------------------
    def fresh_name(self, base):
        self.n_fresh += 1
        return f"{base}!{self.n_fresh}"

    def fresh_int(self, base="i"):
        return z3.Int(self.fresh_name(base))

    def fresh_bool(self, base="b"):
        return z3.Bool(self.fresh_name(base))

    # -- path condition ----------------------------------------------------------
    def assume(self, cond):
        """add a fact to the path condition (background axiom or harness assumption)"""
        if isinstance(cond, bool):
            if not cond:
                raise PathAbort()
            return
        self.solver.add(cond)
        self.n_pc += 1
        if not self.hard and _has_quantifier(cond):
            # from here on the solver may answer `unknown` (incomplete quantifier
            # instantiation): an infeasible path can be discovered late
            self.hard = True

    # premises that hold only for the obligations of a scope (Skolem ranges): they are
    # hypotheses of those checks, never part of the path condition
    def push_premise(self, cond):
        self.premises.append(cond)

    def pop_premise(self):
        self.premises.pop()

    def feasible(self):
        return self.solver.check() != z3.unsat

    def decide(self, cond) -> bool:
        """branch on a z3 Bool, forking when both sides are feasible"""
        if isinstance(cond, bool):
            return cond
        cond = z3.simplify(cond)
        if z3.is_true(cond):
            return True
        if z3.is_false(cond):
            return False
        if self.no_fork:
            # speculative evaluation: a condition the path condition does not determine ends
            # the speculation.  What the solver said is RECORDED (tagged entries) and replayed
            # verbatim: a solver that answers `unknown` in one execution of a path and `unsat`
            # in another must not change which decisions a re-execution meets.
            pos = len(self.trace)
            if pos < len(self.prefix):
                rec = self.prefix[pos]
                if not (isinstance(rec, (tuple, list)) and len(rec) == 2 and rec[0] == "s"):
                    raise VCError("engine inconsistency: re-execution is misaligned with its decision prefix (speculative entry expected at %d)" % pos)
                self.trace.append(("s", rec[1]))
                if rec[1] == "W":
                    raise WouldFork()
                return bool(rec[1])
            can_t = self.solver.check(cond) != z3.unsat
            can_f = self.solver.check(z3.Not(cond)) != z3.unsat
            if can_t and can_f:
                self.trace.append(("s", "W"))
                raise WouldFork()
            if not can_t and not can_f:
                raise PathAbort()
            self.trace.append(("s", can_t))
            return can_t
        pos = len(self.trace)
        if pos < len(self.prefix):
            choice = self.prefix[pos]
            if not isinstance(choice, bool):
                raise VCError("engine inconsistency: re-execution is misaligned with its decision prefix (decision expected at %d)" % pos)
        else:
            can_t = self.solver.check(cond) != z3.unsat
            can_f = self.solver.check(z3.Not(cond)) != z3.unsat
            if can_t and can_f:
                self.engine.push_work(self.trace + [False])
                choice = True
                if FORKPROF is not None:
                    I = getattr(self, "interp", None)
                    n = getattr(I, "cur_stmt", None) if I is not None else None
                    key = (I.stack[-1] if I is not None and I.stack else "?", getattr(n, "lineno", 0))
                    FORKPROF[key] = FORKPROF.get(key, 0) + 1
            elif can_t:
                choice = True
            elif can_f:
                choice = False
            else:
                if not self.tainted and not self.hard:
                    # the path condition is unsatisfiable although nothing was assumed that
                    # could make it so and the solver is complete for what is on the path:
                    # the exploration itself is inconsistent (never silently drop such a
                    # path -- it would hide violations)
                    raise VCError("engine inconsistency: path condition unsatisfiable at a branch (trace %r)" % (self.trace,))
                # with quantified facts on the path an earlier feasibility check may have
                # answered `unknown` (treated as feasible): the infeasibility shows only now
                raise PathAbort()
        self.trace.append(choice)
        self.n_real += 1
        self.solver.add(cond if choice else z3.Not(cond))
        self.n_pc += 1
        return choice

    def entails(self, cond) -> bool:
        """True iff the path condition implies cond (no fork)"""
        if isinstance(cond, bool):
            return cond
        return self.solver.check(z3.Not(cond)) == z3.unsat

    def choose(self, n: int) -> int:
        """non-deterministic choice among n alternatives (harness-level case split)"""
        if self.no_fork and n > 1:
            raise WouldFork()
        for k in range(n - 1):
            pos = len(self.trace)
            if pos < len(self.prefix):
                take = self.prefix[pos]
                if not isinstance(take, bool):
                    raise VCError("engine inconsistency: re-execution is misaligned with its decision prefix (choice expected at %d)" % pos)
            else:
                self.engine.push_work(self.trace + [False])
                take = True
            self.trace.append(take)
            self.n_real += 1
            if take:
                return k
        return n - 1

    # -- inputs ------------------------------------------------------------------
    def register_input(self, name, extractor):
        if name in self.inputs:
            raise VCError(f"duplicate harness input name {name!r}")
        self.inputs[name] = extractor
        self.input_order.append(name)

    def extract_model(self, model):
        out = {}
        for name in self.input_order:
            try:
                out[name] = self.inputs[name](model)
            except Exception as exc:  # pragma: no cover
                out[name] = f"<unextractable: {exc!r}>"
        return out

    # -- obligations -------------------------------------------------------------
    def check(self, cond, label, where=""):
        """one proof obligation: path condition implies cond"""
        eng = self.engine
        t0 = time.time()
        if isinstance(cond, bool):
            if cond:
                self.checks.append(CheckResult(label, "proved", solver="const", where=where, path=list(self.trace)))
                return True
            cond = z3.BoolVal(False)
        if self.premises and not isinstance(cond, bool):
            cond = z3.Implies(z3.And(self.premises), cond)
        s = self.solver
        s.push()
        s.set("timeout", eng.timeout_ms)
        s.add(z3.Not(cond))
        r = s.check()
        res = None
        if r == z3.unsat:
            res = CheckResult(label, "proved", solver="z3", where=where)
            eng.n_proved = getattr(eng, "n_proved", 0) + 1
            rate = eng.cvc5_sample * (25 if eng.n_proved <= 600 else 1)
            if eng.cvc5_sample and eng.rng.random() < rate:
                # thorough tier: second opinion on a sample of the discharged obligations
                c = _cvc5_check(s.to_smt2().replace("(check-sat)", ""), 20.0)
                eng.cvc5_agree[c] = eng.cvc5_agree.get(c, 0) + 1
                if c == "sat":
                    res = CheckResult(label, "unknown", solver="z3+cvc5", where=where, reason="z3: unsat but cvc5: sat (back ends disagree)")
        elif r == z3.sat:
            model = self._small_model(s)
            res = CheckResult(label, "refuted", model=self.extract_model(model), solver="z3", where=where)
        else:
            reason = s.reason_unknown()
            smt2 = s.to_smt2() if eng.use_cvc5 else None
            if smt2 is not None:
                # to_smt2 ends with (check-sat); strip it, _cvc5_check appends its own
                smt2 = smt2.replace("(check-sat)", "")
                c = _cvc5_check(smt2, eng.timeout_ms / 1000.0)
            else:
                c = "unknown"
            if c == "unsat":
                res = CheckResult(label, "proved", solver="cvc5", where=where)
            else:
                # cvc5 'sat' gives no model through this route: stays undecided
                res = CheckResult(label, "unknown", solver="z3+cvc5", where=where, reason=f"z3: {reason}; cvc5: {c}")
        s.pop()
        s.set("timeout", eng.branch_timeout_ms)
        res.secs = time.time() - t0
        res.path = list(self.trace)
        self.checks.append(res)
        if res.status != "proved":
            # continue under the assumption, as every deductive verifier does
            self.tainted = True
            self.assume(cond)
        return res.status == "proved"

    def undecided(self, label, where="", reason=""):
        """an obligation the verifier cannot decide by construction (never a refutation)"""
        self.checks.append(CheckResult(label, "unknown", solver="frame", where=where, reason=reason, path=list(self.trace)))

    def _small_model(self, s):
        """prefer counterexamples with small byte-string lengths so that replays are cheap"""
        model = s.model()
        hints = self.engine.size_hints.get(id(self), [])
        if not hints:
            return model
        for bound in (8, 64, 4096, 70000):
            s.push()
            for h in hints:
                s.add(h <= bound)
            if s.check() == z3.sat:
                model = s.model()
                s.pop()
                return model
            s.pop()
        return model

    def size_hint(self, term):
        self.engine.size_hints.setdefault(id(self), []).append(term)

    def cover(self, label):
        self.covers.add(label)

    def note(self, kind, what):
        self.notes.append((kind, what))


class Engine:
    def __init__(self, timeout_ms=10000, branch_timeout_ms=2000, max_paths=20000, use_cvc5=True):
        self.timeout_ms = timeout_ms
        self.branch_timeout_ms = branch_timeout_ms
        self.max_paths = max_paths
        self.use_cvc5 = use_cvc5
        self.worklist = []
        self.size_hints = {}
        self.cvc5_sample = 0.0
        self.cvc5_agree = {}
        import random as _random

        self.rng = _random.Random(12345)

    def push_work(self, prefix):
        self.worklist.append(prefix)

    def explore(self, run_path, initial=None, fanout=None):
        """run_path(ctx) executes the harness along one path.  Returns summary dict.
        initial: decision prefixes to explore (default: the empty prefix = everything).
        fanout: stop early, breadth first, once that many prefixes are pending; they are
        returned under "remaining" for other workers to explore."""
        self.worklist = [list(p) for p in initial] if initial else [[]]
        paths = 0
        aborted = 0
        checks = []
        covers = set()
        notes = set()
        t0 = time.time()
        while self.worklist:
            if fanout and paths >= 1 and len(self.worklist) >= fanout:
                break
            prefix = self.worklist.pop(0) if fanout else self.worklist.pop()
            paths += 1
            if paths > self.max_paths:
                raise TooManyPaths(f"more than {self.max_paths} paths")
            ctx = PathCtx(self, prefix)
            try:
                run_path(ctx)
            except PathAbort:
                aborted += 1
            finally:
                self.size_hints.pop(id(ctx), None)
            checks.extend(ctx.checks)
            covers |= ctx.covers
            notes |= set(ctx.notes)
        return {
            "paths": paths,
            "aborted": aborted,
            "checks": checks,
            "covers": covers,
            "notes": notes,
            "secs": time.time() - t0,
            "remaining": [list(p) for p in self.worklist],
        }
