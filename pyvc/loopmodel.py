"""Event-loop ghost model (DESIGN.md section 3) -- filled in by the stateful tiers."""
from __future__ import annotations

from .engine import OutsideSubset


class SleepV:
    __slots__ = ("delay",)

    def __init__(self, delay):
        self.delay = delay


class GatherV:
    __slots__ = ("items", "return_exceptions")

    def __init__(self, items, return_exceptions):
        self.items = items
        self.return_exceptions = return_exceptions


def loop_getattr(ghost, obj, name, node):
    return NotImplemented


def loop_call_value(ghost, f, args, kwargs, node):
    return NotImplemented


def asyncio_call(ghost, name, args, kwargs, node):
    from .objects import FuncV, BoundMethod

    I = ghost.I
    if name in ("get_event_loop", "get_running_loop"):
        if ghost.loop is None:
            raise OutsideSubset(f"asyncio.{name}() but the harness installed no event-loop model")
        return ghost.loop
    if name in ("create_task", "ensure_future"):
        if ghost.loop is None:
            raise OutsideSubset("asyncio.create_task() but the harness installed no event-loop model")
        return I.call(I.getattr(ghost.loop, "create_task", node), [args[0]], {}, node)
    if name == "sleep":
        return SleepV(args[0])
    if name == "gather":
        return GatherV(list(args), bool(kwargs.get("return_exceptions", False)))
    if name == "Event":
        mod = I.load_module("contracts.looplib")
        return I.call(mod.ns["Event"], [], {}, node)
    if name == "iscoroutinefunction":
        f = args[0]
        if isinstance(f, BoundMethod):
            f = f.func
        return isinstance(f, FuncV) and f.is_async
    raise OutsideSubset(f"asyncio.{name} is not modelled yet")


def await_value(ghost, v, node):
    """sequential model of await: a coroutine object is run to completion in place
    (cooperative scheduling: nothing else runs unless the awaited thing yields to the
    loop, which only the loop primitives sleep/Event.wait/gather model do)"""
    from .objects import CoroV

    I = ghost.I
    if isinstance(v, CoroV):
        if v.started:
            I.throw("RuntimeError", "cannot reuse already awaited coroutine", node=node)
        v.started = True
        added = [i for i in v.body_ids if i not in I.body_mode]
        I.body_mode.update(added)
        try:
            return I.run_function(v.func, v.args, v.kwargs, node)
        finally:
            I.body_mode.difference_update(added)
    if isinstance(v, SleepV):
        return ghost.on_sleep(v.delay, node)
    if isinstance(v, GatherV):
        # each awaitable runs exactly once; the order among them is unspecified by asyncio,
        # here: in argument order, to completion one after the other
        from .interp import RaiseSig
        from .values import ListV

        if any(isinstance(it, I.lib.StarSeq) for it in v.items):
            # arbitrarily many awaitables: each is awaited exactly once (asyncio.gather, trusted);
            # what one of them does is verified on the coroutine function itself
            I.ctx.note("axiom", "asyncio.gather(*seq) awaits every element of seq exactly once")
            return ListV([])
        out = []
        for it in v.items:
            try:
                out.append(await_value(ghost, it, node))
            except RaiseSig as r:
                if not v.return_exceptions:
                    raise
                out.append(r.exc)
        return ListV(out)
    from .objects import ObjV, BoundMethod

    if isinstance(v, ObjV):
        f, _ = v.cls.lookup("__await_model__")
        if f is not None:
            return I.call(BoundMethod(f, v), [], {}, node)
    raise OutsideSubset(f"await of {type(v).__name__} at {I.where(node)}")
