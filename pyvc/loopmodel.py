"""Event-loop ghost model (DESIGN.md section 3) -- filled in by the stateful tiers."""
from __future__ import annotations

from .engine import OutsideSubset


def loop_getattr(ghost, obj, name, node):
    return NotImplemented


def loop_call_value(ghost, f, args, kwargs, node):
    return NotImplemented


def asyncio_call(ghost, name, args, kwargs, node):
    from .objects import FuncV, BoundMethod

    if name == "iscoroutinefunction":
        f = args[0]
        if isinstance(f, BoundMethod):
            f = f.func
        return isinstance(f, FuncV) and f.is_async
    raise OutsideSubset(f"asyncio.{name} is not modelled yet")


def await_value(ghost, v, node):
    raise OutsideSubset("await is not modelled yet")
