"""CPython twin of the harness API: replays a counterexample on the real code.

Runs under /venv/bin/python (the interpreter of the repository's test-suite) with
PYTHONPATH=/verif:<repo>/src.  Must not import z3 or anything else from pyvc.

usage: python -m pyvc.native <harness module> <harness function> <replay.json>
exit 0: a check of the harness failed natively (counterexample confirmed)
exit 4: every check passed natively (not reproduced)
exit 5: the model does not satisfy the harness assumptions natively / harness crashed
"""
from __future__ import annotations

import importlib
import json
import os
import sys
import traceback


class ReplayInvalid(Exception):
    pass


class _Opaque:
    def __init__(self, tag, k):
        self.tag = tag
        self.k = k

    def __repr__(self):
        return f"<{self.tag}#{self.k}>"

    # listeners / handlers / transports: every call is recorded by the harness' own
    # recorder objects; a bare opaque is only compared for identity


class _NativeCut(BaseException):
    pass


class NativeOutcome:
    def __init__(self, kind, value=None, exc=None):
        self.kind = kind
        self.value = value
        self.exc = exc
        self.exc_type = type(exc) if exc is not None else None

    def __repr__(self):
        return f"Outcome({self.kind}, {self.value!r}, {self.exc!r})"


class NativeVC:
    native = True

    def __init__(self, model):
        self.model = model
        self.results = []  # (label, ok, detail)
        self._intern = {}
        self._stash = {}
        self._cut = None
        self._cleanups = []

    def _get(self, name):
        if name not in self.model:
            raise ReplayInvalid(f"model has no value for input {name!r}")
        v = self.model[name]
        if isinstance(v, str) and v.startswith("<unextractable"):
            raise ReplayInvalid(f"input {name!r}: {v}")
        return v

    def _bytes(self, v):
        if isinstance(v, dict):
            b = bytearray([v["fill"]]) * v["len"]
            for k, x in v["patch"].items():
                b[int(k)] = x
            return bytes(b)
        return bytes.fromhex(v)

    # ---- inputs
    def int(self, name, lo=None, hi=None):
        v = int(self._get(name))
        if (lo is not None and v < lo) or (hi is not None and v > hi):
            raise ReplayInvalid(f"{name}={v} outside [{lo},{hi}]")
        return v

    def bool(self, name):
        return bool(self._get(name))

    def real(self, name, lo=None, hi=None):
        return float(self._get(name))

    def choice(self, name, options):
        return list(options)[int(self._get(name))]

    def bytes(self, name, minlen=0, maxlen=None, native_from=None, hint=None):
        if native_from is not None and native_from in self.model:
            return self._bytes(self._get(native_from))
        return self._bytes(self._get(name))

    def bytes_fixed(self, name, n):
        return self._bytes(self._get(name))

    UNIQUE_TAGS = ("transport", "listener", "handler", "loop")

    def opaque(self, name, tag="obj"):
        if tag in self.UNIQUE_TAGS:
            # stateful collaborators: one object per harness input, whatever the model says
            self._get(name)
            return self._intern.setdefault(("unique", name), _Opaque(tag, name))
        return self._mk_opaque(tag, self._get(name))

    def opaque_seq(self, name, tag="obj", maxlen=None):
        return tuple(self._mk_opaque(tag, ident) for ident in self._get(name))

    def _mk_opaque(self, tag, ident):
        key = (tag if tag in ("addr", "option", "host", "host6") else "obj", ident)
        if key not in self._intern:
            k = len([1 for (t, _) in self._intern if t == key[0]])
            if tag == "addr":
                self._intern[key] = ("10.9.%d.%d" % (k // 250, k % 250 + 1), 30490)
            elif tag == "host":
                self._intern[key] = "10.8.%d.%d" % (k // 250, k % 250 + 1)
            elif tag == "host6":
                self._intern[key] = "fd00::%x" % (k + 1)
            elif tag == "option":
                import someip.header

                self._intern[key] = someip.header.SOMEIPSDUnknownOption(type=0x7F, payload=k.to_bytes(2, "big"))
            else:
                self._intern[key] = _Opaque(tag, k)
        return self._intern[key]

    def _any_from_json(self, j):
        if isinstance(j, list):
            if len(j) in (2, 4) and isinstance(j[0], str) and j[0].startswith("Obj!") and isinstance(j[1], int):
                # a socket address: (host, port) or (host, port, flowinfo, scope_id)
                return (self._mk_opaque("host6" if len(j) == 4 else "host", j[0]),) + tuple(self._any_from_json(x) for x in j[1:])
            return tuple(self._any_from_json(x) for x in j)
        if isinstance(j, str) and j.startswith("Obj!"):
            return self._mk_opaque("host", j)
        return j

    def _from_json(self, d, j):
        if d == "any":
            return self._any_from_json(j)
        if d == "int":
            return int(j)
        if d == "bool":
            return bool(j)
        if d == "none":
            return None
        if isinstance(d, str) and d.startswith("obj"):
            if j is None:
                return None
            return self._mk_opaque(d.split(":", 1)[1] if ":" in d else "obj", j)
        if d[0] == "tuple":
            return tuple(self._from_json(s, x) for s, x in zip(d[1:], j))
        if d[0] == "opt":
            return None if j is None else self._from_json(d[1], j)
        if d[0] == "dc":
            return d[1](**{n: self._from_json(s, x) for (n, s), x in zip(d[2], j)})
        raise ReplayInvalid(f"bad descriptor {d!r}")

    def lock_discipline(self, name, label):
        return 0

    def fields(self, obj):
        return dict(vars(obj))

    _ATTR_READS = None

    def attr_is_read(self, name):
        """native twin of vc.attr_is_read: scans the package's source"""
        import ast as _ast
        import glob

        if NativeVC._ATTR_READS is None:
            import someip

            cache = set()
            for path in glob.glob(os.path.join(os.path.dirname(someip.__file__), "*.py")):
                with open(path) as f:
                    tree = _ast.parse(f.read())
                for n in _ast.walk(tree):
                    if isinstance(n, _ast.Attribute) and isinstance(n.ctx, _ast.Load):
                        cache.add(n.attr)
                    elif isinstance(n, _ast.Call) and isinstance(n.func, _ast.Name) and n.func.id in ("getattr", "hasattr"):
                        if len(n.args) >= 2 and isinstance(n.args[1], _ast.Constant) and isinstance(n.args[1].value, str):
                            cache.add(n.args[1].value)
                        else:
                            cache.add("*")
                    elif isinstance(n, _ast.Call) and isinstance(n.func, _ast.Name) and n.func.id == "vars":
                        cache.add("*")
            NativeVC._ATTR_READS = cache
        return name in NativeVC._ATTR_READS or "*" in NativeVC._ATTR_READS

    # ---- frames: native twin of pyvc.loopcut.heap_snapshot / frame_violations
    @staticmethod
    def _is_repo_obj(x):
        cls = type(x)
        if any("VC_MODEL" in vars(c) for c in cls.__mro__):
            return False
        return any((getattr(c, "__module__", "") or "").startswith("someip") for c in cls.__mro__) and hasattr(x, "__dict__")

    @staticmethod
    def _frozen(x):
        p = getattr(type(x), "__dataclass_params__", None)
        return p is not None and p.frozen

    def _ref(self, x):
        import types

        if isinstance(x, (list, dict, set, bytearray)) or (self._is_repo_obj(x) and not self._frozen(x)):
            return ("id", id(x))
        if isinstance(x, types.MethodType):
            return ("bm", id(x.__self__), id(x.__func__))
        try:
            hash(x)
            return ("v", x)
        except TypeError:
            return ("id", id(x))

    def _shallow(self, x):
        if isinstance(x, _LazyNativeDict):
            return ("lazy", x._writes)
        if isinstance(x, dict):
            return tuple((self._ref(k), self._ref(v)) for k, v in list(x.items()))
        if isinstance(x, (list, set)):
            return tuple(self._ref(v) for v in list(x))
        if isinstance(x, bytearray):
            return bytes(x)
        return tuple((k, self._ref(v)) for k, v in vars(x).items())

    def snapshot(self, **roots):
        import types

        seen, names = {}, {}
        stack = [(v, k) for k, v in roots.items()]
        while stack:
            x, path = stack.pop(0)
            if isinstance(x, types.MethodType):
                stack.append((x.__self__, path))
                continue
            if isinstance(x, tuple):
                for i, y in enumerate(x):
                    stack.append((y, f"{path}[{i}]"))
                continue
            if id(x) in seen:
                continue
            if isinstance(x, (list, dict, set, bytearray)):
                seen[id(x)] = (x, self._shallow(x))
                names[id(x)] = path
                if isinstance(x, dict):
                    for v in list(x.values()):
                        stack.append((v, f"{path}[...]"))
                elif isinstance(x, list):
                    for i, v in enumerate(x):
                        stack.append((v, f"{path}[{i}]"))
                elif isinstance(x, set):
                    for v in list(x):
                        stack.append((v, f"{path}{{...}}"))
                continue
            if not self._is_repo_obj(x):
                continue
            if not self._frozen(x):
                seen[id(x)] = (x, self._shallow(x))
                names[id(x)] = path
            for k, v in vars(x).items():
                stack.append((v, f"{path}.{k}"))
        return ("snapshot", (seen, names))

    def changed(self, snap):
        seen, names = snap[1]
        out = []
        for oid, (x, sh) in seen.items():
            try:
                same = self._shallow(x) == sh
            except Exception:
                same = False
            if same:
                continue
            if isinstance(x, (list, dict, set, bytearray)):
                out.append(names[oid])
            else:
                a, b = dict(sh), dict(self._shallow(x))
                for k in list(a) + [k for k in b if k not in a]:
                    if a.get(k, "<absent>") != b.get(k, "<absent>"):
                        out.append(f"{names[oid]}.{k}")
        return sorted(set(out))

    def map(self, name, key=None, val=None, default=None, inv=None, like=None):
        if like is not None:
            default = getattr(like, "default_factory", None)
        pairs = [(self._from_json(key, k), self._from_json(val, v)) for k, v in self._get(name)]
        if default is not None:
            import collections

            return collections.defaultdict(default, pairs)
        return dict(pairs)

    def lazy_dict(self, name, gen_value, gen_key=None, default=None, key_from_json=None):
        """the materialised entries of the model (everything else is irrelevant to the run)"""
        import collections

        d = collections.defaultdict(default) if default is not None else {}
        for ent in self._get(name):
            if ent["key"] == "<generated>":
                key = gen_key(self, f"{name}.it{ent['n']}")  # found by the native search
            else:
                key = key_from_json(ent["key"]) if key_from_json is not None else self._any_from_json(ent["key"])
            d[key] = gen_value(self, f"{name}[{ent['n']}]", key)
        return d

    def lazy_set(self, name, gen_key=None):
        return set(self.lazy_dict(name, lambda vc, n, k: True, gen_key).keys())

    def copy(self, v, default=None):
        import collections
        import copy

        if default is not None:
            return collections.defaultdict(default, v)
        return copy.copy(v)

    def intset(self, name, probe=None):
        return frozenset(self._get(name))

    def _fill(self):
        if getattr(self, "_filler", None) is None:
            import random

            self._filler = GenVC(random.Random(12345))
            self._filler._intern = self._intern
        return self._filler

    def seq(self, name, gen):
        info = self._get(name)
        n = min(int(info["len"]), 64)
        idx = info.get("indices", {})
        out = []
        for i in range(n):
            keys = [k for k, ci in idx.items() if ci == i]
            if keys:
                out.append(gen(self, f"{name}[{keys[0]}]"))
            else:
                out.append(gen(self._fill(), f"{name}[fill{i}]"))
        return tuple(out)

    def sym_list(self, name):
        return []

    def list_tail(self, l):
        return list(l)

    def text(self, name, minlen=0, maxlen=None, exclude=None):
        return self._get(name)

    # ---- facts
    def raw(self, fn):
        try:
            return fn()
        except IndexError:
            return True

    def forall(self, lo, hi, fn):
        return all(fn(m) for m in range(lo, hi))

    def count(self, bools):
        return sum(1 for b in bools if b)

    def ite(self, c, a, b):
        return a if c else b

    def assume(self, c):
        if not c:
            raise ReplayInvalid("assumption violated by the model")

    def check(self, c, label):
        self.results.append((label, bool(c), ""))

    def fail(self, label):
        self.results.append((label, False, "reached"))

    def cover(self, label):
        pass

    def note(self, kind, what):
        pass

    def body(self, f):
        return f

    def install_loop(self, loop):
        import asyncio

        from contracts import looplib

        self._loop = loop
        saved = (asyncio.get_event_loop, asyncio.get_running_loop, asyncio.create_task, asyncio.Event)
        asyncio.get_event_loop = lambda: loop
        asyncio.get_running_loop = lambda: loop
        asyncio.create_task = loop.create_task
        asyncio.Event = looplib.Event
        self._cleanups.append(lambda: [setattr(asyncio, n, v) for n, v in zip(("get_event_loop", "get_running_loop", "create_task", "Event"), saved)])
        return loop

    def drive(self, coro, log, on_sleep=None, cancellable=False, on_cancel=None):
        """native twin of vc.drive: steps the real coroutine; asyncio.sleep / gather are
        replaced by awaitables that hand control to this driver"""
        import asyncio

        class _Sleep:
            def __init__(self, d):
                self.d = d

            def __await__(self):
                yield self

        async def _gather(*aws, return_exceptions=False):
            out = []
            for a in aws:
                try:
                    out.append(await a)
                except Exception as exc:  # noqa: BLE001
                    if not return_exceptions:
                        raise
                    out.append(exc)
            return out

        saved = (asyncio.sleep, asyncio.gather)
        asyncio.sleep = lambda d, *a, **k: _Sleep(d)
        asyncio.gather = _gather
        # a model without a cancellation point (e.g. an arbitrary iteration of an endless
        # loop) is replayed with a late cancellation so that the coroutine ends
        cancel_at = self.model.get("cancel_at", 12) if cancellable else -1
        loop = getattr(self, "_loop", None)
        k = 0
        pending_exc = None
        try:
            while True:
                try:
                    req = coro.throw(pending_exc) if pending_exc is not None else coro.send(None)
                except StopIteration as stop:
                    return stop.value
                pending_exc = None
                if not isinstance(req, _Sleep):
                    raise ReplayInvalid(f"coroutine awaited something the driver does not model: {req!r}")
                if k == cancel_at:
                    log.append(("cancel",))
                    if on_cancel is not None:
                        on_cancel()
                    pending_exc = asyncio.CancelledError()
                else:
                    log.append(("sleep", req.d))
                    if loop is not None:
                        loop.now = loop.now + req.d
                    if on_sleep is not None:
                        on_sleep(k, req.d)
                k += 1
                if k > 40:
                    raise ReplayInvalid("coroutine did not finish within 40 sleeps (pick a cancel_at)")
        finally:
            asyncio.sleep, asyncio.gather = saved
            coro.close()

    def cleanup(self):
        for c in reversed(self._cleanups):
            try:
                c()
            except Exception:
                pass
        self._cleanups.clear()

    def run(self, coro):
        import asyncio

        loop = asyncio.new_event_loop()
        try:
            return loop.run_until_complete(coro)
        finally:
            loop.close()

    def stash(self, name, value):
        self._stash[name] = value

    def stashed(self, name, native_default=None):
        return self._stash.get(name, native_default)

    def _record(self, obj, name, delegate):
        calls = []

        def rec(*a, **k):
            calls.append(tuple(a) + tuple(k[x] for x in sorted(k)))
            if delegate is None:
                return None
            return delegate(*a, **k)

        setattr(obj, name, rec)
        return calls

    def stub(self, obj, name, fn=None):
        return self._record(obj, name, fn)

    def spy(self, obj, name):
        return self._record(obj, name, getattr(obj, name))

    def arm_cut(self, func, ordinal):
        """stop the real loop #ordinal of func when its head is reached the second time"""
        import ast
        import inspect
        import textwrap

        f = getattr(func, "__func__", func)
        f = inspect.unwrap(f)
        src = textwrap.dedent(inspect.getsource(f))
        tree = ast.parse(src)
        loops = []

        def visit(n, top=True):
            for c in ast.iter_child_nodes(n):
                if isinstance(c, (ast.FunctionDef, ast.AsyncFunctionDef, ast.Lambda, ast.ClassDef)) and not top:
                    continue
                if isinstance(c, (ast.For, ast.While)):
                    loops.append(c)
                visit(c, False)

        visit(tree.body[0], True)
        if ordinal >= len(loops):
            return  # the loop is gone: nothing to cut, the harness observes the difference
        line = f.__code__.co_firstlineno + loops[ordinal].lineno - 1
        self._cut = (f.__code__, line)

    def _run_with_cut(self, f, args, kwargs):
        code, line = self._cut
        self._cut = None
        hits = {}

        def local(frame, event, arg):
            if event == "line" and frame.f_lineno == line:
                hits[id(frame)] = hits.get(id(frame), 0) + 1
                if hits[id(frame)] >= 2:
                    raise _NativeCut()
            return local

        def tracer(frame, event, arg):
            if frame.f_code is code:
                return local
            return tracer

        sys.settrace(tracer)
        try:
            return f(*args, **kwargs)
        finally:
            sys.settrace(None)

    def outcome(self, f, *args, **kwargs):
        try:
            if self._cut is not None:
                return NativeOutcome("ret", value=self._run_with_cut(f, args, kwargs))
            return NativeOutcome("ret", value=f(*args, **kwargs))
        except _NativeCut:
            return NativeOutcome("cut")
        except BaseException as exc:  # noqa: BLE001 - the harness compares the class
            if isinstance(exc, (KeyboardInterrupt, SystemExit, ReplayInvalid)):
                raise
            return NativeOutcome("raise", exc=exc)

    def check_eq(self, a, b, label):
        self.results.append((label, a == b, f"{a!r} != {b!r}" if a != b else ""))

    def same_outcome(self, o1, o2, label):
        if o1.kind != o2.kind:
            self.results.append((label + ".kind", False, f"{o1!r} vs {o2!r}"))
            return
        if o1.kind == "raise":
            ok = type(o1.exc) is type(o2.exc)
            self.results.append((label + ".exc_class", ok, f"{o1!r} vs {o2!r}"))
            return
        ok = o1.value == o2.value
        self.results.append((label + ".value", ok, f"{o1.value!r} vs {o2.value!r}" if not ok else ""))

    def is_exc(self, o, cls):
        return o.kind == "raise" and isinstance(o.exc, cls)


def _raised_in_harness(exc):
    """was the exception raised by harness code itself (innermost frame under contracts/)?
    Then the harness no longer fits the code it looks into (an attribute it reads is gone,
    ...): that is a checker problem, never evidence about the property"""
    tb = exc.__traceback__
    last = None
    while tb is not None:
        last = tb
        tb = tb.tb_next
    if last is None:
        return False
    fn = last.tb_frame.f_code.co_filename.replace("\\", "/")
    return "/contracts/" in fn


def run(modname, fname, model):
    mod = importlib.import_module(modname)
    fn = getattr(mod, fname)
    vc = NativeVC(model)
    crashed = None
    try:
        try:
            fn(vc)
        finally:
            vc.cleanup()
    except ReplayInvalid as exc:
        return {"verdict": "invalid", "reason": str(exc), "results": vc.results}
    except BaseException as exc:  # noqa: BLE001
        crashed = "".join(traceback.format_exception_only(type(exc), exc)).strip()
        if _raised_in_harness(exc) and not [r for r in vc.results if not r[1]]:
            return {"verdict": "invalid", "reason": "the harness itself raised " + crashed + " (it no longer fits the code it inspects)", "results": vc.results}
        vc.results.append(("no-uncaught-exception", False, crashed))
    failed = [r for r in vc.results if not r[1]]
    return {
        "verdict": "confirmed" if failed else "not-reproduced",
        "failed": [{"label": l, "detail": d} for (l, _, d) in failed],
        "checks_run": len(vc.results),
        "crashed": crashed,
    }


def main(argv):
    if len(argv) >= 3 and argv[1] == "--file":
        path = argv[2]
        with open(path) as f:
            rec = json.load(f)
        modname, fname = rec["harness"].rsplit(".", 1)
    else:
        modname, fname, path = argv[1:4]
        with open(path) as f:
            rec = json.load(f)
    out = run(modname, fname, rec["model"])
    print(json.dumps(out, default=repr))
    if out["verdict"] == "confirmed":
        return 0
    if out["verdict"] == "not-reproduced":
        return 4
    return 5




# ======================================================================================
# bounded stand-in: the same harness on generated concrete inputs (never counted as proof)


class _Discard(Exception):
    pass


class _LazyNativeDict(dict):
    """generated twin of vc.lazy_dict: a key that was never looked at is decided (present
    with a generated value / absent) the first time it is looked at"""

    def __init__(self, vc, name, gen_value, default):
        super().__init__()
        self._vc, self._name, self._gen, self._default = vc, name, gen_value, default
        self._decided = set()
        self._n = 100
        self._writes = 0  # real writes (frames): materialising an entry by looking at it is none

    def _touch(self, key):
        if dict.__contains__(self, key) or key in self._decided:
            return
        self._decided.add(key)
        if self._vc.rng.random() < 0.5:
            self._n += 1
            dict.__setitem__(self, key, self._gen(self._vc, f"{self._name}[{self._n}]", key))

    def __contains__(self, key):
        self._touch(key)
        return dict.__contains__(self, key)

    def __getitem__(self, key):
        self._touch(key)
        if not dict.__contains__(self, key) and self._default is not None:
            self._writes += 1
            dict.__setitem__(self, key, self._default())
        return dict.__getitem__(self, key)

    def get(self, key, default=None):
        self._touch(key)
        return dict.get(self, key, default)

    def pop(self, key, *default):
        self._touch(key)
        if dict.__contains__(self, key):
            self._writes += 1
        return dict.pop(self, key, *default)

    def __delitem__(self, key):
        self._touch(key)
        self._writes += 1
        dict.__delitem__(self, key)

    def __setitem__(self, key, value):
        self._decided.add(key)
        self._writes += 1
        dict.__setitem__(self, key, value)

    def clear(self):
        # everything, also what was never looked at, is gone
        self._writes += 1
        dict.clear(self)
        self._touch = lambda key: None


class GenVC(NativeVC):
    """harness API that draws inputs (boundary-biased random); records them as a model"""

    def __init__(self, rng):
        super().__init__({})
        self.rng = rng
        self.pool = {}

    def _rec(self, name, v):
        self.model[name] = v
        return v

    def drive(self, coro, log, on_sleep=None, cancellable=False, on_cancel=None):
        if cancellable and "cancel_at" not in self.model:
            self.model["cancel_at"] = self.rng.choice([0, 1, 2, 3, 4, 5, 6, 7])
        return NativeVC.drive(self, coro, log, on_sleep, cancellable, on_cancel)

    def int(self, name, lo=None, hi=None):
        r = self.rng
        if lo is None and hi is None:
            lo, hi = -(1 << 40), 1 << 40
        elif lo is None:
            lo = hi - (1 << 40)
        elif hi is None:
            hi = lo + (1 << 40)
        cands = [lo, hi, lo + 1, hi - 1, (lo + hi) // 2]
        for w in (1, 2, 15, 16, 17, 255, 256, 0x7FFF, 0xFFFE, 0xFFFF, 0x10000, 0xFFFFFE, 0xFFFFFF, 0x1000000, 0xFFFFFFFE, 0xFFFFFFFF):
            if lo <= w <= hi:
                cands.append(w)
        # values of like-named fields collide often (two entries of the same service, ...)
        suffix = name.rsplit(".", 1)[-1]
        seen = self.pool.setdefault(("int", suffix), [])
        k = r.random()
        if seen and k < 0.35:
            v = r.choice(seen)
        elif k < 0.6:
            v = r.choice(cands)
        elif k < 0.85:
            v = r.randint(lo, min(hi, lo + 20))
        else:
            v = r.randint(lo, hi)
        v = max(lo, min(hi, v))
        seen.append(v)
        return self._rec(name, v)

    def bool(self, name):
        return self._rec(name, self.rng.random() < 0.5)

    def real(self, name, lo=None, hi=None):
        lo = 0.0 if lo is None else lo
        hi = lo + 10.0 if hi is None else hi
        return self._rec(name, self.rng.choice([lo, hi, (lo + hi) / 2, self.rng.uniform(lo, hi)]))

    def choice(self, name, options):
        options = list(options)
        k = self.rng.randrange(len(options))
        self._rec(name, k)
        return options[k]

    def _someip(self):
        r = self.rng
        n = r.choice([0, 0, 1, 2, 7, 8, 9, 40])
        payload = bytes(r.randrange(256) for _ in range(n))
        mt = r.choice([0, 1, 2, 0x40, 0x41, 0x42, 0x80, 0x81, 0xC0, 0xC1])
        rc = r.randrange(11)
        sid = r.choice([0, 1, 0xFF, 0x100, 0xFFFF, r.randrange(65536)])
        hdr = sid.to_bytes(2, "big") + r.randrange(65536).to_bytes(2, "big") + (n + 8).to_bytes(4, "big")
        hdr += r.randrange(65536).to_bytes(2, "big") + r.randrange(65536).to_bytes(2, "big") + bytes([1, r.randrange(256), mt, rc])
        return hdr + payload

    def _option_bytes(self):
        r = self.rng
        k = r.random()
        if k < 0.3:
            t = r.choice([0x04, 0x14, 0x24])
            body = bytes([0]) + bytes(r.randrange(256) for _ in range(4)) + bytes([0, r.choice([6, 17, 99])]) + r.randrange(65536).to_bytes(2, "big")
        elif k < 0.45:
            t = r.choice([0x06, 0x16, 0x26])
            body = bytes([0]) + bytes(r.randrange(256) for _ in range(16)) + bytes([0, r.choice([6, 17, 99])]) + r.randrange(65536).to_bytes(2, "big")
        elif k < 0.6:
            t = 2
            body = bytes([0]) + r.randrange(65536).to_bytes(2, "big") + r.randrange(65536).to_bytes(2, "big")
        elif k < 0.8:
            t = 1
            body = self.bytes("_cfg", hint="config")
            self.model.pop("_cfg", None)
        else:
            t = r.choice([0, 3, 0x42, 0xFF])
            body = bytes(r.randrange(256) for _ in range(r.choice([0, 1, 5])))
        if r.random() < 0.1:
            body = body[:-1]
        return len(body).to_bytes(2, "big") + bytes([t]) + body

    def _sd_bytes(self):
        r = self.rng
        opts = [self._option_bytes() for _ in range(r.choice([0, 1, 2, 3]))]
        n = len(opts)
        ents = []
        for _ in range(r.choice([0, 1, 2, 3])):
            t = r.choice([0, 1, 6, 7, 7, 1, 2])
            oi1, oi2 = r.randrange(n + 1), r.randrange(n + 1)
            no1 = r.randrange(n - oi1 + 1) if r.random() < 0.9 else r.randrange(16)
            no2 = r.randrange(n - oi2 + 1) if r.random() < 0.9 else r.randrange(16)
            val = r.choice([0, 1, 0xFFFFF, 0x100000, r.randrange(1 << 20), r.randrange(1 << 32)])
            ents.append(bytes([t, oi1, oi2, ((no1 & 15) << 4) | (no2 & 15)]) + r.randrange(65536).to_bytes(2, "big") + r.randrange(65536).to_bytes(2, "big")
                        + bytes([r.randrange(256)]) + r.choice([0, 3, 0xFFFFFF, r.randrange(1 << 24)]).to_bytes(3, "big") + val.to_bytes(4, "big"))
        eb, ob = b"".join(ents), b"".join(opts)
        b = bytes([r.choice([0xC0, 0x40, 0x80, 0x00, 0xFF, 0x41]), r.choice([0, 0, 1]), 0, 0]) + len(eb).to_bytes(4, "big") + eb + len(ob).to_bytes(4, "big") + ob
        k = r.random()
        if k < 0.15:
            b += bytes(r.randrange(256) for _ in range(r.randrange(1, 6)))
        elif k < 0.3 and b:
            ba = bytearray(b)
            ba[r.randrange(len(ba))] ^= 1 << r.randrange(8)
            b = bytes(ba)
        elif k < 0.4:
            b = b[: r.randrange(len(b) + 1)]
        return b

    def bytes(self, name, minlen=0, maxlen=None, native_from=None, hint=None):
        r = self.rng
        if hint == "sd-datagram" and r.random() < 0.9:
            b = b""
            for _ in range(r.choice([1, 1, 2])):
                pl = self._sd_bytes()
                sid = r.choice([0xFFFF, 0xFFFF, 0xFFFF, 0xFFFE])
                mid = r.choice([0x8100, 0x8100, 0x8100, 0x8101])
                iv = r.choice([1, 1, 1, 0, 2])
                mt = r.choice([2, 2, 2, 0, 0x80])
                rc = r.choice([0, 0, 0, 1])
                b += sid.to_bytes(2, "big") + mid.to_bytes(2, "big") + (len(pl) + 8).to_bytes(4, "big") + bytes([0, 0]) + r.randrange(65536).to_bytes(2, "big") + bytes([1, iv, mt, rc]) + pl
        elif hint == "sd" and r.random() < 0.9:
            b = self._sd_bytes()
        elif hint == "option" and r.random() < 0.9:
            b = self._option_bytes() + bytes(r.randrange(256) for _ in range(r.choice([0, 0, 3])))
        elif hint == "config" and r.random() < 0.85:
            items = []
            for _ in range(r.choice([0, 1, 1, 2, 3])):
                k = "".join(r.choice("abk") for _ in range(r.choice([1, 1, 2, 3])))
                kind = r.random()
                if kind < 0.3:
                    items.append(k.encode())
                elif kind < 0.6:
                    items.append((k + "=" + "".join(r.choice("xy=") for _ in range(r.choice([0, 1, 2, 4])))).encode())
                else:
                    items.append(bytes(r.choice([61, 97, 0x80, 0xC3, 0x7F]) for _ in range(r.choice([1, 2, 3]))))
            b = bytes([r.choice([0, 0, 7])]) + b"".join(bytes([len(i)]) + i for i in items) + bytes([0])
            if r.random() < 0.2:
                b += bytes(r.randrange(256) for _ in range(r.randrange(1, 5)))
            if r.random() < 0.15 and len(b) > 2:
                b = b[: r.randrange(1, len(b))]
        elif hint == "someip*" and r.random() < 0.8:
            b = b"".join(self._someip() for _ in range(r.choice([1, 1, 2, 3])))
            k = r.random()
            if k < 0.2:
                b += bytes(r.randrange(256) for _ in range(r.randrange(1, 20)))
            elif k < 0.3 and b:
                ba = bytearray(b)
                ba[r.randrange(len(ba))] ^= 1 << r.randrange(8)
                b = bytes(ba)
        else:
            hi = maxlen if maxlen is not None else minlen + r.choice([0, 1, 2, 3, 8, 15, 16, 17, 40, 300])
            n = r.randint(minlen, max(minlen, hi))
            b = bytes(r.choice([0, 0xFF, r.randrange(256)]) for _ in range(n))
        self.model[name] = b.hex()
        return b

    def bytes_fixed(self, name, n):
        b = bytes(self.rng.randrange(256) for _ in range(n))
        self.model[name] = b.hex()
        return b

    def _ident(self, tag):
        return "Obj!val!%d" % self.rng.randrange(3)

    def lazy_dict(self, name, gen_value, gen_key=None, default=None, key_from_json=None):
        d = _LazyNativeDict(self, name, gen_value, default)
        ents = []
        if gen_key is not None:
            for j in range(self.rng.choice([0, 1, 1, 2, 3])):
                key = gen_key(self, f"{name}.it{j}")
                if dict.__contains__(d, key):
                    continue
                d[key] = gen_value(self, f"{name}[{j}]", key)
                ents.append({"n": j, "key": "<generated>"})
        self.model[name] = ents
        return d

    def lazy_set(self, name, gen_key=None):
        out = set()
        ents = []
        if gen_key is not None:
            for j in range(self.rng.choice([0, 1, 1, 2, 3])):
                out.add(gen_key(self, f"{name}.it{j}"))
                ents.append({"n": j, "key": "<generated>"})
        self.model[name] = ents
        return out

    def seq(self, name, gen):
        n = self.rng.choice([0, 1, 1, 2, 3])
        self.model[name] = {"len": n, "indices": {str(i): i for i in range(n)}}
        return tuple(gen(self, f"{name}[{i}]") for i in range(n))

    def text(self, name, minlen=0, maxlen=None, exclude=None):
        r = self.rng
        hi = maxlen if maxlen is not None else minlen + r.choice([0, 1, 2, 3, 10])
        n = r.randint(minlen, max(minlen, min(hi, minlen + 12)))
        alphabet = [c for c in "ab=z\x00\x7f 0" if exclude is None or ord(c) != exclude]
        t = "".join(r.choice(alphabet) for _ in range(n))
        return self._rec(name, t)

    def opaque(self, name, tag="obj"):
        ident = self._ident(tag)
        self.model[name] = ident
        if tag in self.UNIQUE_TAGS:
            return self._intern.setdefault(("unique", name), _Opaque(tag, name))
        return self._mk_opaque(tag, ident)

    def opaque_seq(self, name, tag="obj", maxlen=None):
        n = self.rng.choice([0, 0, 1, 2, 3])
        ids = [self._ident(tag) for _ in range(n)]
        self.model[name] = ids
        return tuple(self._mk_opaque(tag, i) for i in ids)

    def intset(self, name, probe=None):
        out = set()
        for p in probe or []:
            if self.rng.random() < 0.6:
                out.add(int(p))
        for _ in range(self.rng.randrange(3)):
            out.add(self.rng.randrange(0x10000))
        self.model[name] = sorted(out)
        return frozenset(out)

    def _gen_json(self, d):
        r = self.rng
        if d == "any":
            host = self._ident("host")
            port = r.choice([30490, 30491])
            if r.random() < 0.5:
                return [host, port]
            return [host, port, 0, r.randrange(3)]
        if d == "int":
            return r.choice([0, 1, 2, 0xFFFE, 0xFFFF, r.randrange(0x10000)])
        if d == "bool":
            return r.random() < 0.5
        if d == "none":
            return None
        if isinstance(d, str) and d.startswith("obj"):
            return self._ident(d)
        if d[0] == "tuple":
            return [self._gen_json(s) for s in d[1:]]
        if d[0] == "opt":
            return None if r.random() < 0.3 else self._gen_json(d[1])
        if d[0] == "dc":
            return [self._gen_json(s) for _, s in d[2]]
        raise ReplayInvalid(f"bad descriptor {d!r}")

    def map(self, name, key=None, val=None, default=None, inv=None, like=None):
        pairs = []
        seen = set()
        for _ in range(self.rng.choice([0, 1, 2, 4])):
            for _try in range(20):
                kj, vj = self._gen_json(key), self._gen_json(val)
                if repr(kj) in seen:
                    continue
                if inv is None or inv(self._from_json(val, vj)):
                    seen.add(repr(kj))
                    pairs.append([kj, vj])
                    break
        self.model[name] = pairs
        return NativeVC.map(self, name, key, val, default, inv, like)

    def assume(self, c):
        if not c:
            raise _Discard()


def fuzz(modname, fname, n, seed, budget_s):
    import random
    import time

    mod = importlib.import_module(modname)
    fn = getattr(mod, fname)
    rng = random.Random(seed)
    t0 = time.time()
    runs = discarded = 0
    distinct = set()
    for i in range(n):
        if time.time() - t0 > budget_s:
            break
        vc = GenVC(rng)
        try:
            try:
                fn(vc)
            finally:
                vc.cleanup()
        except _Discard:
            discarded += 1
            continue
        except ReplayInvalid as exc:
            return {"verdict": "invalid", "reason": str(exc)}
        except BaseException as exc:  # noqa: BLE001
            crashed = "".join(traceback.format_exception_only(type(exc), exc)).strip()
            if _raised_in_harness(exc) and not [r for r in vc.results if not r[1]]:
                return {"verdict": "invalid", "reason": "the harness itself raised " + crashed + " (it no longer fits the code it inspects)", "runs": runs}
            vc.results.append(("no-uncaught-exception", False, crashed))
        runs += 1
        distinct.add(json.dumps(vc.model, sort_keys=True, default=repr))
        failed = [r for r in vc.results if not r[1]]
        if failed:
            return {
                "verdict": "confirmed",
                "model": vc.model,
                "failed": [{"label": l, "detail": d[:500]} for (l, _, d) in failed],
                "runs": runs,
            }
    return {"verdict": "nothing-found", "runs": runs, "discarded": discarded, "distinct_inputs": len(distinct), "secs": round(time.time() - t0, 2)}


def main_fuzz(argv):
    modname, fname, n, seed, budget = argv[2], argv[3], int(argv[4]), int(argv[5]), float(argv[6])
    print(json.dumps(fuzz(modname, fname, n, seed, budget), default=repr))
    return 0


if __name__ == "__main__" and len(sys.argv) > 1 and sys.argv[1] == "--fuzz":
    sys.exit(main_fuzz(sys.argv))

if __name__ == "__main__":
    sys.exit(main(sys.argv))
