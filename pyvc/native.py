"""CPython twin of the harness API: replays a counterexample on the real code.

Runs under /venv/bin/python (the interpreter of the repository's test-suite) with
PYTHONPATH=/verif:<repo>/src.  Must not import z3 or anything else from pyvc.

usage: python -m pyvc.native <harness module> <harness function> <replay.json>
exit 0: a check of the harness failed natively (counterexample confirmed)
exit 4: every check passed natively (not reproduced)
exit 5: the model does not satisfy the harness assumptions natively / harness crashed
"""
from __future__ import annotations

import importlib
import json
import sys
import traceback


class ReplayInvalid(Exception):
    pass


class _Opaque:
    def __init__(self, tag, k):
        self.tag = tag
        self.k = k

    def __repr__(self):
        return f"<{self.tag}#{self.k}>"

    # listeners / handlers / transports: every call is recorded by the harness' own
    # recorder objects; a bare opaque is only compared for identity


class NativeOutcome:
    def __init__(self, kind, value=None, exc=None):
        self.kind = kind
        self.value = value
        self.exc = exc
        self.exc_type = type(exc) if exc is not None else None

    def __repr__(self):
        return f"Outcome({self.kind}, {self.value!r}, {self.exc!r})"


class NativeVC:
    native = True

    def __init__(self, model):
        self.model = model
        self.results = []  # (label, ok, detail)
        self._intern = {}

    def _get(self, name):
        if name not in self.model:
            raise ReplayInvalid(f"model has no value for input {name!r}")
        return self.model[name]

    # ---- inputs
    def int(self, name, lo=None, hi=None):
        v = int(self._get(name))
        if (lo is not None and v < lo) or (hi is not None and v > hi):
            raise ReplayInvalid(f"{name}={v} outside [{lo},{hi}]")
        return v

    def bool(self, name):
        return bool(self._get(name))

    def real(self, name, lo=None, hi=None):
        return float(self._get(name))

    def choice(self, name, options):
        return list(options)[int(self._get(name))]

    def bytes(self, name, minlen=0, maxlen=None):
        return bytes.fromhex(self._get(name))

    def bytes_fixed(self, name, n):
        return bytes.fromhex(self._get(name))

    def opaque(self, name, tag="obj"):
        return self._mk_opaque(tag, self._get(name))

    def opaque_seq(self, name, tag="obj", maxlen=None):
        return tuple(self._mk_opaque(tag, ident) for ident in self._get(name))

    def _mk_opaque(self, tag, ident):
        key = (tag if tag in ("addr", "option") else "obj", ident)
        if key not in self._intern:
            k = len([1 for (t, _) in self._intern if t == key[0]])
            if tag == "addr":
                self._intern[key] = ("10.9.%d.%d" % (k // 250, k % 250 + 1), 30490)
            elif tag == "option":
                import someip.header

                self._intern[key] = someip.header.SOMEIPSDUnknownOption(type=0x7F, payload=k.to_bytes(2, "big"))
            else:
                self._intern[key] = _Opaque(tag, k)
        return self._intern[key]

    def _from_json(self, d, j):
        if d == "int":
            return int(j)
        if d == "bool":
            return bool(j)
        if d == "none":
            return None
        if isinstance(d, str) and d.startswith("obj"):
            if j is None:
                return None
            return self._mk_opaque(d.split(":", 1)[1] if ":" in d else "obj", j)
        if d[0] == "tuple":
            return tuple(self._from_json(s, x) for s, x in zip(d[1:], j))
        if d[0] == "opt":
            return None if j is None else self._from_json(d[1], j)
        if d[0] == "dc":
            return d[1](**{n: self._from_json(s, x) for (n, s), x in zip(d[2], j)})
        raise ReplayInvalid(f"bad descriptor {d!r}")

    def lock_discipline(self, name, label):
        return 0

    def map(self, name, key=None, val=None, default=None, inv=None):
        pairs = [(self._from_json(key, k), self._from_json(val, v)) for k, v in self._get(name)]
        if default is not None:
            import collections

            return collections.defaultdict(default, pairs)
        return dict(pairs)

    def copy(self, v):
        import copy

        return copy.copy(v)

    def intset(self, name, probe=None):
        return frozenset(self._get(name))

    # ---- facts
    def assume(self, c):
        if not c:
            raise ReplayInvalid("assumption violated by the model")

    def check(self, c, label):
        self.results.append((label, bool(c), ""))

    def fail(self, label):
        self.results.append((label, False, "reached"))

    def cover(self, label):
        pass

    def note(self, kind, what):
        pass

    def body(self, f):
        return f

    def outcome(self, f, *args, **kwargs):
        try:
            return NativeOutcome("ret", value=f(*args, **kwargs))
        except BaseException as exc:  # noqa: BLE001 - the harness compares the class
            if isinstance(exc, (KeyboardInterrupt, SystemExit, ReplayInvalid)):
                raise
            return NativeOutcome("raise", exc=exc)

    def check_eq(self, a, b, label):
        self.results.append((label, a == b, f"{a!r} != {b!r}" if a != b else ""))

    def same_outcome(self, o1, o2, label):
        if o1.kind != o2.kind:
            self.results.append((label + ".kind", False, f"{o1!r} vs {o2!r}"))
            return
        if o1.kind == "raise":
            ok = type(o1.exc) is type(o2.exc)
            self.results.append((label + ".exc_class", ok, f"{o1!r} vs {o2!r}"))
            return
        ok = o1.value == o2.value
        self.results.append((label + ".value", ok, f"{o1.value!r} vs {o2.value!r}" if not ok else ""))

    def is_exc(self, o, cls):
        return o.kind == "raise" and isinstance(o.exc, cls)


def run(modname, fname, model):
    mod = importlib.import_module(modname)
    fn = getattr(mod, fname)
    vc = NativeVC(model)
    crashed = None
    try:
        fn(vc)
    except ReplayInvalid as exc:
        return {"verdict": "invalid", "reason": str(exc), "results": vc.results}
    except BaseException as exc:  # noqa: BLE001
        crashed = "".join(traceback.format_exception_only(type(exc), exc)).strip()
        vc.results.append(("no-uncaught-exception", False, crashed))
    failed = [r for r in vc.results if not r[1]]
    return {
        "verdict": "confirmed" if failed else "not-reproduced",
        "failed": [{"label": l, "detail": d} for (l, _, d) in failed],
        "checks_run": len(vc.results),
        "crashed": crashed,
    }


def main(argv):
    modname, fname, path = argv[1:4]
    with open(path) as f:
        rec = json.load(f)
    out = run(modname, fname, rec["model"])
    print(json.dumps(out, default=repr))
    if out["verdict"] == "confirmed":
        return 0
    if out["verdict"] == "not-reproduced":
        return 4
    return 5


if __name__ == "__main__":
    sys.exit(main(sys.argv))
