"""Symbolic value representations (DESIGN.md section 2.2)."""
from __future__ import annotations

import z3

from .engine import OutsideSubset, VCError


class SInt:
    """symbolic Python int: a z3 Int term (mathematical integers are exact for Python)"""

    __slots__ = ("t", "digits")

    def __init__(self, t, digits=None):
        self.t = t
        # provenance: big-endian byte terms this value was read from (struct.unpack),
        # re-used by struct.pack (uniqueness of base-256 digits, lemma checked in selfcheck)
        self.digits = digits

    def __repr__(self):
        return f"SInt({self.t})"


class SBool:
    __slots__ = ("t",)

    def __init__(self, t):
        self.t = t

    def __repr__(self):
        return f"SBool({self.t})"


class SReal:
    """symbolic float/real (only used for time arithmetic)"""

    __slots__ = ("t",)

    def __init__(self, t):
        self.t = t

    def __repr__(self):
        return f"SReal({self.t})"


class EnumV:
    """member (or would-be member) of an IntEnum class: compares like its int value"""

    __slots__ = ("cls", "value")

    def __init__(self, cls, value):
        self.cls = cls
        self.value = value  # int or SInt

    def __repr__(self):
        return f"EnumV({self.cls.name},{self.value})"


class Opaque:
    """a value the verifier knows nothing about except identity (z3 const of sort Obj)"""

    __slots__ = ("t", "tag", "attrs")

    def __init__(self, t, tag="obj"):
        self.t = t
        self.tag = tag
        self.attrs = {}

    def __repr__(self):
        return f"Opaque<{self.tag}:{self.t}>"


ObjSort = z3.DeclareSort("Obj")


# ----------------------------------------------------------------------------------------
# byte ropes


class Unit:
    __slots__ = ("b",)

    def __init__(self, b):
        self.b = b  # python int 0..255 or z3 Int term

    def __repr__(self):
        return f"U({self.b})"


class View:
    """len bytes of an uninterpreted byte function fn starting at off"""

    __slots__ = ("fn", "off", "n")

    def __init__(self, fn, off, n):
        self.fn = fn
        self.off = off  # int or z3 term
        self.n = n  # int or z3 term (>= 0 under the path condition)

    def __repr__(self):
        return f"V({self.fn.name()},{self.off},{self.n})"


def zint(v):
    """python int / z3 term -> z3 term"""
    if isinstance(v, bool):
        return z3.IntVal(1 if v else 0)
    if isinstance(v, int):
        return z3.IntVal(v)
    return v


def zadd(a, b):
    if isinstance(a, int) and isinstance(b, int):
        return a + b
    if isinstance(a, int) and a == 0:
        return b
    if isinstance(b, int) and b == 0:
        return a
    return z3.simplify(zint(a) + zint(b))


def zsub(a, b):
    if isinstance(a, int) and isinstance(b, int):
        return a - b
    if isinstance(b, int) and b == 0:
        return a
    return z3.simplify(zint(a) - zint(b))


def as_const(t):
    """z3 term -> python int if it is a numeral else the term"""
    if isinstance(t, int):
        return t
    if z3.is_int_value(t):
        return t.as_long()
    return t


class SBytes:
    """immutable byte string as a rope of Unit / View segments.
    kind: 'bytes' | 'bytearray' (bytearray mutation is modelled by BytearrayV)"""

    __slots__ = ("segs",)

    def __init__(self, segs=()):
        self.segs = tuple(segs)

    @staticmethod
    def from_concrete(b):
        return SBytes(Unit(x) for x in bytes(b))

    def length(self):
        n = 0
        for s in self.segs:
            n = zadd(n, 1 if isinstance(s, Unit) else s.n)
        return as_const(n)

    def concrete(self):
        """-> bytes if every byte is concrete else None"""
        out = bytearray()
        for s in self.segs:
            if isinstance(s, Unit) and isinstance(s.b, int):
                out.append(s.b)
            elif isinstance(s, View) and isinstance(s.n, int) and s.n == 0:
                continue
            else:
                return None
        return bytes(out)

    def concat(self, other):
        return SBytes(self.segs + other.segs)

    def __repr__(self):
        c = self.concrete()
        if c is not None:
            return f"SBytes({c!r})"
        return f"SBytes{self.segs}"


class BytearrayV:
    """mutable bytearray: identity + current rope"""

    __slots__ = ("rope",)

    def __init__(self, rope):
        self.rope = rope

    def __repr__(self):
        return f"BytearrayV({self.rope})"


class SStr:
    """ASCII text whose bytes are symbolic: same rope, all bytes < 128 (assumed at creation)"""

    __slots__ = ("rope",)

    def __init__(self, rope):
        self.rope = rope

    def __repr__(self):
        return f"SStr({self.rope})"


# ----------------------------------------------------------------------------------------
# sequences of symbolic length


class SeqV:
    """tuple/list of symbolic length: n (z3 Int term or int), at(i_term) -> value.
    Immutable view; ListV with .sym holds one for mutable lists."""

    __slots__ = ("n", "at", "kind", "ident")

    def __init__(self, n, at, kind="tuple", ident=None):
        self.n = n
        self.at = at
        self.kind = kind
        self.ident = ident

    def __repr__(self):
        return f"SeqV<{self.kind} n={self.n}>"


class ListV:
    """mutable python list with concrete shape; `sym` is set (to a SymListV that takes over)
    once the list is extended by a sequence of symbolic length"""

    __slots__ = ("items", "sym")

    def __init__(self, items=()):
        self.items = list(items)
        self.sym = None

    def __repr__(self):
        return f"ListV({self.items})"


class CompDictV:
    """{K(i): V(i) for i in range(lo, hi)} with symbolic bounds: only .get is modelled, as
    the over-approximation 'the default, or V(t) for some t in range with K(t) == key'"""

    __slots__ = ("keyfn", "valfn", "lo", "hi")

    def __init__(self, keyfn, valfn, lo, hi):
        self.keyfn, self.valfn, self.lo, self.hi = keyfn, valfn, lo, hi


class SymListV:
    """mutable list = immutable symbolic prefix (SeqV, arbitrary length) + tail of appended
    chunks (concrete items or whole symbolic sequences); models a list that only grows"""

    __slots__ = ("prefix", "items")

    def __init__(self, prefix, items=()):
        self.prefix = prefix
        self.items = list(items)  # elements, or SeqV chunks (from extend)

    def __repr__(self):
        return f"SymListV(prefix n={self.prefix.n}, tail={self.items})"


class SetV:
    """mutable set with concrete shape (elements pairwise compared symbolically);
    frozen=True for frozenset"""

    __slots__ = ("items", "frozen")

    def __init__(self, items=(), frozen=False):
        self.items = list(items)
        self.frozen = frozen

    def __repr__(self):
        return f"SetV({self.items})"


class SymSet:
    """set of ints with symbolic membership: z3 Array Int->Bool"""

    __slots__ = ("arr",)

    def __init__(self, arr):
        self.arr = arr


class DictV:
    """mutable dict with concrete shape: insertion-ordered list of [key, value];
    keys are kept pairwise distinct *under the path condition* (lookups decide equality).
    default_factory: for collections.defaultdict"""

    __slots__ = ("pairs", "default_factory")

    def __init__(self, pairs=(), default_factory=None):
        self.pairs = [list(p) for p in pairs]
        self.default_factory = default_factory

    def __repr__(self):
        return f"DictV({self.pairs})"


class LazyDictV:
    """dict with arbitrary (unbounded) contents whose entries are materialised on first
    touch: `overlay` holds every key this path has looked at ([key, value, present]);
    everything else is the untouched `base` (membership: uninterpreted predicate, values:
    produced by gen_value when first read, count: m).  What is not in the overlay is, by
    construction, exactly as it was -- the frame comes for free."""

    __slots__ = ("ident", "overlay", "base_alive", "base_dom", "m", "gen_value", "gen_key", "default_factory", "n_touch", "touched_log", "it_memo", "version", "universals")

    def __init__(self, ident, base_dom, m, gen_value, gen_key=None, default_factory=None):
        self.ident = ident
        self.overlay = []
        self.base_alive = True
        self.base_dom = base_dom
        self.m = m
        self.gen_value = gen_value
        self.gen_key = gen_key
        self.default_factory = default_factory
        self.n_touch = 0
        self.touched_log = []  # (ordinal, key) of entries materialised from the base
        self.it_memo = {}
        self.version = 0  # bumped by clear()
        self.universals = []  # (view kind, fact): facts about every entry of the base (pyvc/quant.py)

    def __repr__(self):
        return f"LazyDictV<{self.ident} overlay={len(self.overlay)}>"


class LazySetV:
    """set with arbitrary (unbounded) contents: a LazyDictV of its members"""

    __slots__ = ("d",)

    def __init__(self, d):
        self.d = d


class MapV:
    """dict with symbolic contents over the universal value sort (pyvc/valenc.py):
    dom : Val -> Bool, val : Val -> Val, typed by descriptors."""

    __slots__ = ("keysort", "dom", "val", "default_factory", "ident", "desc_key", "desc_val", "touched", "dom0", "val0", "inv")

    def __init__(self, keysort, dom, val, desc_key, desc_val, default_factory=None, ident=None, touched=None):
        self.keysort = keysort
        self.dom = dom
        self.val = val
        self.dom0 = dom
        self.val0 = val
        self.desc_key = desc_key
        self.desc_val = desc_val
        self.default_factory = default_factory
        self.ident = ident
        self.touched = touched if touched is not None else []
        self.inv = None  # representation invariant on values: assumed on read, checked on write

    def valwrap(self, I, t):
        from .valenc import decode

        v = decode(I, self.desc_val, t)
        if self.inv is not None:
            c = I.call(self.inv, [v], {}, None)
            if isinstance(c, SBool):
                I.ctx.assume(c.t)
            elif not I.truthy(c):
                from .engine import PathAbort

                raise PathAbort()
        return v

    def valunwrap(self, I, v):
        from .valenc import encode

        if self.inv is not None:
            c = I.call(self.inv, [v], {}, None)
            I.ctx.check(c.t if isinstance(c, SBool) else bool(I.truthy(c)), f"map-invariant[{self.ident}]", "")
        return encode(I, self.desc_val, v)

    def key(self, I, k):
        t = self.keysort.encode(I, k)
        self.touched.append(t)
        I.ghost.trace.append(("map-access", self.ident))
        return t


def deref(v):
    """a ListV that became symbolic is represented by its SymListV"""
    if isinstance(v, ListV) and v.sym is not None:
        return v.sym
    return v


def is_symbolic(v):
    return isinstance(v, (SInt, SBool, SReal))


def is_intlike(v):
    return isinstance(v, (int, SInt)) or (isinstance(v, EnumV)) or isinstance(v, SBool)


def int_term(v):
    """intlike value -> (python int | z3 Int term)"""
    if isinstance(v, bool):
        return 1 if v else 0
    if isinstance(v, int):
        return v
    if isinstance(v, SInt):
        return v.t
    if isinstance(v, SBool):
        return z3.If(v.t, z3.IntVal(1), z3.IntVal(0))
    if isinstance(v, EnumV):
        return int_term(v.value)
    raise OutsideSubset(f"not an int: {v!r}")


def mk_int(t):
    """python int | z3 term -> int | SInt (numerals collapse to python ints)"""
    if isinstance(t, int):
        return t
    t = z3.simplify(t)
    if z3.is_int_value(t):
        return t.as_long()
    return SInt(t)


def mk_bool(t):
    if isinstance(t, bool):
        return t
    t = z3.simplify(t)
    if z3.is_true(t):
        return True
    if z3.is_false(t):
        return False
    return SBool(t)


def bool_term(v):
    if isinstance(v, bool):
        return z3.BoolVal(v)
    if isinstance(v, SBool):
        return v.t
    raise VCError(f"not a bool: {v!r}")
