#!/bin/bash
# usage: pyvc/mutate.sh <PROP> <file under src/someip> <python-regex-old> <new> [extra check args]
# applies one textual mutation to a scratch copy of /repo/src and runs the check on it
set -u
PROP=$1; FILE=$2; OLD=$3; NEW=$4; shift 4
D=$(mktemp -d /tmp/pyvc-mut.XXXXXX)
cp -r /repo/src "$D/src"
python3 - "$D/src/someip/$FILE" "$OLD" "$NEW" <<'PY'
import sys,re
p,old,new=sys.argv[1:4]
s=open(p).read()
n=s.count(old)
if n!=1:
    print(f"MUTATION-ERROR: pattern occurs {n} times"); sys.exit(9)
open(p,'w').write(s.replace(old,new))
PY
rc=$?
if [ $rc -ne 0 ]; then rm -rf "$D"; exit 9; fi
PYVC_REPO_SRC="$D/src" python3-vt /verif/pyvc/check.py "$PROP" --no-evidence "$@"
rc=$?
rm -rf "$D"
echo "exit=$rc"
exit $rc
