"""any() / all() over collections with unbounded contents.

A lazily materialised dict (pyvc/values.py LazyDictV) has arbitrarily many entries nobody
has looked at.  `any(p(x) for x in <such a collection>)` is evaluated as the quantifier it
is:

  True  : there is a witness -- one arbitrary element is materialised (fresh key from the
          untouched base, or one of the entries already looked at) and p(witness) is
          assumed; the witnesses are recorded for the harness (vc.witnesses());
  False : p(x) is false for EVERY element: the fact is applied to all entries looked at so
          far and registered with the dict, so that every entry materialised from the base
          later on -- in particular the harness's arbitrary entry -- is instantiated with it.

`all` is the dual.  Sources: keys/values/items views of lazy dicts, generator expressions
over a source (map + filters), itertools.chain.from_iterable over a source of sources, and
concrete containers (as leaves of a chain).
"""
from __future__ import annotations

import z3

from .engine import OutsideSubset, PathAbort
from .objects import Env, GenV
from .values import DictV, LazyDictV, LazySetV, ListV, SBool, SetV, SymListV, deref, zint


class ChainV:
    """itertools.chain.from_iterable(src) that has not been consumed"""

    __slots__ = ("src",)

    def __init__(self, src):
        self.src = src


def is_symbolic_source(I, v):
    v = deref(v)
    if isinstance(v, LazySetV):
        v = v.d
    if isinstance(v, LazyDictV):
        return v.base_alive
    if isinstance(v, I.lib.ItemsView):
        return is_symbolic_source(I, v.d)
    if isinstance(v, GenV):
        g = v.node.generators
        return len(g) == 1 and is_symbolic_source(I, I.eval(g[0].iter, v.env))
    if isinstance(v, ChainV):
        return True
    return False


def _assume_truth(I, v, expected):
    """continue only where bool(v) == expected (no fork)"""
    if isinstance(v, SBool):
        I.ctx.assume(v.t if expected else z3.Not(v.t))
        if not I.ctx.feasible():
            raise PathAbort()
        return
    if isinstance(v, bool):
        if v != expected:
            raise PathAbort()
        return
    if I.truthy(v) != expected:
        raise PathAbort()


def _proj(kind, key, value):
    if kind == "items":
        return (key, value)
    if kind == "keys":
        return key
    return value


def witness(I, v, node):
    """materialise one arbitrary element of the collection (the path ends if it is empty)"""
    from . import lazydict

    v = deref(v)
    if isinstance(v, LazySetV):
        v = v.d
    if isinstance(v, LazyDictV):
        v = I.lib.ItemsView(v, "keys")
    if isinstance(v, I.lib.ItemsView) and isinstance(v.d, LazyDictV):
        d = v.d
        seq = lazydict.items_seq(I, d, "items", node)
        if isinstance(seq, list):
            if not seq:
                raise PathAbort()
            kv = seq[I.ctx.choose(len(seq))]
        else:
            k = I.ctx.fresh_int(f"{d.ident}.witness")
            I.ctx.assume(z3.And(k >= 0, k < zint(seq.n)))
            if not I.ctx.feasible():
                raise PathAbort()
            kv = seq.at(k)
        I.ghost.witnesses.append((d.ident, kv[0], kv[1]))
        return _proj(v.kind, kv[0], kv[1])
    if isinstance(v, GenV):
        g = v.node.generators[0]
        if len(v.node.generators) != 1:
            raise OutsideSubset("quantifier over a generator expression with several generators")
        x = witness(I, I.eval(g.iter, v.env), node)
        cenv = Env(parent=v.env)
        cenv.func = v.env.func if not v.env.is_class else None
        I.assign_target(g.target, x, cenv)
        for cond in g.ifs:
            _assume_truth(I, I.eval(cond, cenv), True)
        return I.eval(v.node.elt, cenv)
    if isinstance(v, ChainV):
        return witness(I, witness(I, v.src, node), node)
    # concrete leaves
    items = list(I.lib.iterate(I, v, node))
    if not items:
        raise PathAbort()
    return items[I.ctx.choose(len(items))]


def forall(I, v, fact, node):
    """fact(x) for every element of the collection, now and whenever one is materialised"""
    v = deref(v)
    if isinstance(v, LazySetV):
        v = v.d
    if isinstance(v, LazyDictV):
        v = I.lib.ItemsView(v, "keys")
    if isinstance(v, I.lib.ItemsView) and isinstance(v.d, LazyDictV):
        d, kind = v.d, v.kind
        for e in list(d.overlay):
            if e[2]:
                fact(_proj(kind, e[0], e[1]))
        if d.base_alive:
            d.universals.append((kind, fact))
        return
    if isinstance(v, GenV):
        g = v.node.generators[0]
        if len(v.node.generators) != 1:
            raise OutsideSubset("quantifier over a generator expression with several generators")

        def inner(x, v=v, g=g):
            cenv = Env(parent=v.env)
            cenv.func = v.env.func if not v.env.is_class else None
            I.assign_target(g.target, x, cenv)
            for cond in g.ifs:
                if not I.truthy(I.eval(cond, cenv), cond):
                    return
            fact(I.eval(v.node.elt, cenv))

        forall(I, I.eval(g.iter, v.env), inner, node)
        return
    if isinstance(v, ChainV):
        forall(I, v.src, lambda sub: forall(I, sub, fact, node), node)
        return
    for x in list(I.lib.iterate(I, v, node)):
        fact(x)


def quantified(I, v, is_any, node):
    """any(v) (is_any) / all(v)"""
    if I.ctx.choose(2) == 0:
        # any: a witness makes it True; all: a counterexample makes it False
        w = witness(I, v, node)
        _assume_truth(I, w, is_any)
        return is_any
    forall(I, v, lambda e: _assume_truth(I, e, not is_any), node)
    return not is_any
