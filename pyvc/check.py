"""Command-line driver: decide one property.

  python3-vt pyvc/check.py C19 [--tier quick|thorough] [--jobs N] [--only SUBSTR]

exit 0  every obligation discharged (known findings printed as KNOWN-FINDING)
exit 1  violation: an obligation was refuted ("VIOLATION property=<id> replay=<path>")
exit 2  undecided: some obligation is `unknown` on both back ends
exit 3  checker error (outside-subset construct, vacuity, canary not refuted, crash)
"""
from __future__ import annotations

import argparse
import json
import multiprocessing
import os
import subprocess
import sys
import time
import traceback

VERIF = os.path.dirname(os.path.dirname(os.path.abspath(__file__)))
if VERIF not in sys.path:
    sys.path.insert(0, VERIF)

from pyvc.engine import Engine, OutsideSubset, PathAbort, VCError  # noqa: E402

_WORKER = {}


def _get_interp(propmod):
    from pyvc.interp import Interp

    if "I" not in _WORKER:
        I = Interp()
        I.load_module("contracts." + propmod)
        register_contracts(I)
        _WORKER["I"] = I
    return _WORKER["I"]


def register_contracts(I):
    from pyvc.objects import FuncV
    from pyvc.values import DictV

    for name, mod in list(I.world.modules.items()):
        if not name.startswith("contracts."):
            continue
        c = mod.ns.get("CONTRACTS")
        if isinstance(c, DictV):
            for q, f in c.pairs:
                if not isinstance(f, FuncV):
                    raise VCError(f"CONTRACTS[{q!r}] in {name} is not a function")
                I.world.contracts[q] = f
        ab = mod.ns.get("ABSTRACT")
        if isinstance(ab, DictV):
            for f, spec in ab.pairs:
                if not isinstance(f, FuncV) or not isinstance(spec, DictV):
                    raise VCError("ABSTRACT must map spec functions to dicts")
                I.world.abstract[f.qualname] = {k: v for k, v in spec.pairs}
        c = mod.ns.get("ASSUMED_CONTRACTS")
        if isinstance(c, DictV):
            for q, f in c.pairs:
                I.world.contracts[q] = f
                I.world.assumed_contracts.add(q)
        ls = mod.ns.get("LOOPS")
        if isinstance(ls, DictV):
            from pyvc.loopcut import register_loops

            register_loops(I, ls)
    # every contract must name an existing function of the real code
    for q in I.world.contracts:
        if q not in I.world.funcs_by_qualname:
            raise VCError(f"contract for unknown function {q} (renamed or removed in the repository?)")


def _global_roots(I):
    """(namespace dict, dotted prefix) of every repository module and of the classes defined in it"""
    from pyvc.objects import ClassV
    from pyvc.values import deref

    out = []
    for mname, mod in list(I.world.modules.items()):
        if not str(mname).startswith("someip"):
            continue
        out.append((mod.ns, str(mname)))
        todo = [(mod.ns, str(mname))]
        while todo:
            ns, prefix = todo.pop()
            for k, v in list(ns.items()):
                v = deref(v)
                if isinstance(v, ClassV) and getattr(v, "module", None) is mod and not v.builtin and not any(v.ns is o[0] for o in out):
                    out.append((v.ns, prefix + "." + str(k)))
                    todo.append((v.ns, prefix + "." + str(k)))
    return out


def global_snapshot(I):
    from pyvc.loopcut import _shallow
    from pyvc.values import BytearrayV, DictV, ListV, SetV, deref

    snap = []
    for ns, prefix in _global_roots(I):
        names = {}
        for k, v in ns.items():
            v0 = deref(v)
            names[k] = id(v0)
            if isinstance(v0, DictV):
                snap.append(("c", prefix + "." + str(k), v0, _shallow(I, v0), [list(p_) for p_ in v0.pairs]))
            elif isinstance(v0, ListV):
                snap.append(("c", prefix + "." + str(k), v0, _shallow(I, v0), list(v0.items)))
            elif isinstance(v0, SetV) and not v0.frozen:
                snap.append(("c", prefix + "." + str(k), v0, _shallow(I, v0), list(v0.items)))
            elif isinstance(v0, BytearrayV):
                snap.append(("c", prefix + "." + str(k), v0, _shallow(I, v0), v0.rope))
        snap.append(("n", prefix, ns, names, dict(ns)))
    return snap


def global_restore(I, snap):
    """paths of the global state that changed since the snapshot; the state is put back"""
    from pyvc.loopcut import _shallow
    from pyvc.values import BytearrayV, DictV, ListV, deref

    changed = []
    for rec in snap:
        if rec[0] == "c":
            _, path, obj, sh, saved = rec
            try:
                same = _shallow(I, obj) == sh
            except Exception:  # noqa: BLE001
                same = False
            if not same:
                changed.append(path)
                if isinstance(obj, DictV):
                    obj.pairs[:] = [list(p_) for p_ in saved]
                elif isinstance(obj, BytearrayV):
                    obj.rope = saved
                else:
                    obj.items[:] = saved
        else:
            _, prefix, ns, names, saved = rec
            from pyvc.objects import ModuleV

            now = {k: id(deref(v)) for k, v in ns.items()}
            if now != names:
                real = False
                for k in set(now) | set(names):
                    if now.get(k) != names.get(k):
                        if k not in names and isinstance(deref(ns[k]), ModuleV):
                            # a submodule loaded on this path was bound in its package:
                            # module loading, not program state (kept)
                            continue
                        real = True
                        changed.append(prefix + "." + str(k))
                if real:
                    keep = {k: v for k, v in ns.items() if k not in names and isinstance(deref(v), ModuleV)}
                    ns.clear()
                    ns.update(saved)
                    ns.update(keep)
    return sorted(set(changed))


def run_harness(job):
    propmod, modname, fname, opts = job[:4]
    initial = job[4] if len(job) > 4 else None
    from pyvc.interp import CutSig, RaiseSig

    t0 = time.time()
    out = {"harness": f"{modname}.{fname}", "checks": [], "covers": [], "notes": [], "paths": 0, "aborted": 0, "error": None}
    try:
        I = _get_interp(propmod)
        mod = I.load_module(modname)
        fn = mod.ns[fname]
        eng = Engine(timeout_ms=opts["timeout_ms"], branch_timeout_ms=opts["branch_timeout_ms"], max_paths=opts["max_paths"])
        eng.cvc5_sample = opts.get("cvc5_sample", 0.0)
        eng.rng.seed(hash((modname, fname, tuple(map(tuple, initial or [])))) & 0xFFFFFFFF)

        def run_path(ctx):
            I.begin_path(ctx)
            gsnap = global_snapshot(I)
            try:
                _run_path(ctx)
            finally:
                # global frame: module-level and class-level mutable state of the repository
                # (caches, registries) is as it was when the modules were loaded.  Every
                # contract is verified from that state, which is only sound if no operation
                # changes it; a change is not a refutation of anything -- the single-call
                # contracts no longer describe the code (undecided; the native twins, which
                # include call histories, look for a failing input).  The state is put back
                # so that the next path starts from the load-time state again.
                for gpath in global_restore(I, gsnap):
                    ctx.undecided(f"global_state.frame[{gpath}]", "", f"the code under verification changes {gpath}, state that outlives the call: contracts verified per call from the load-time state do not cover later calls")

        def _run_path(ctx):
            try:
                I.call(fn, [I.ghost.vc], {}, None)
            except RaiseSig as r:
                if str(r.where).startswith("contracts."):
                    # raised by harness code itself: the harness no longer fits the code it
                    # looks into -- undecided (the native twin decides what it can), never a
                    # refutation
                    ctx.undecided(f"harness-error[{r.exc.cls.name}]", r.where, f"the harness itself raised {r.exc.cls.name} at {r.where}: it no longer fits the code it inspects")
                else:
                    ctx.check(False, f"no-uncaught-exception[{r.exc.cls.name}]", r.where)
            except CutSig:
                pass

        res = eng.explore(run_path, initial=initial, fanout=opts.get("fanout") if initial is None else None)
        out["remaining"] = res["remaining"]
        out["paths"] = res["paths"]
        out["aborted"] = res["aborted"]
        out["checks"] = [c.as_dict() for c in res["checks"]]
        out["cvc5"] = dict(eng.cvc5_agree)
        out["covers"] = sorted(res["covers"])
        out["notes"] = sorted(set(res["notes"]))
    except OutsideSubset as exc:
        out["error"] = f"outside-subset: {exc}"
    except VCError as exc:
        out["error"] = f"checker: {type(exc).__name__}: {exc}"
    except Exception as exc:  # noqa: BLE001
        out["error"] = "crash: " + "".join(traceback.format_exception(type(exc), exc, exc.__traceback__))[-3000:]
    out["secs"] = time.time() - t0
    return out


def merge_results(first, more):
    by = {r["harness"]: r for r in first}
    for m in more:
        r = by[m["harness"]]
        if m["error"] and not r["error"]:
            r["error"] = m["error"]
        r["checks"].extend(m["checks"])
        r["covers"] = sorted(set(r["covers"]) | set(m["covers"]))
        r["notes"] = sorted({tuple(n) for n in r["notes"]} | {tuple(n) for n in m["notes"]})
        for k, v in (m.get("cvc5") or {}).items():
            r.setdefault("cvc5", {})[k] = r.get("cvc5", {}).get(k, 0) + v
        r["paths"] += m["paths"]
        r["aborted"] += m["aborted"]
        r["secs"] += m["secs"]
    return first


def list_harnesses(prop):
    """interpret the property module once in this process to learn its harness list"""
    from pyvc.interp import Interp
    from pyvc.objects import FuncV
    from pyvc.values import DictV, ListV

    I = Interp()
    propmod = prop.lower()
    mod = I.load_module("contracts." + propmod)
    register_contracts(I)
    hs = mod.ns.get("HARNESSES")
    if not isinstance(hs, ListV):
        raise VCError(f"contracts/{propmod}.py defines no HARNESSES list")
    jobs = []
    for f in hs.items:
        if not isinstance(f, FuncV):
            raise VCError("HARNESSES must list functions")
        modname, fname = f.qualname.rsplit(".", 1)
        jobs.append((modname, fname))
    meta = {
        "under_contract": sorted(I.world.contracts.keys()),
        "assumed_contracts": sorted(I.world.assumed_contracts),
        "assumptions": [x for x in (mod.ns.get("ASSUMPTIONS").items if isinstance(mod.ns.get("ASSUMPTIONS"), ListV) else [])],
        "expect_covers": {},
        "level": mod.ns.get("LEVEL", "proof"),
        "bounded": [x for x in (mod.ns.get("BOUNDED").items if isinstance(mod.ns.get("BOUNDED"), ListV) else [])],
        "explanation": mod.ns.get("EXPLANATION", ""),
        "relevant": [x for x in (mod.ns.get("FUNCTIONS").items if isinstance(mod.ns.get("FUNCTIONS"), ListV) else [])],
    }
    ec = mod.ns.get("EXPECT_COVERS")
    if isinstance(ec, DictV):
        for k, v in ec.pairs:
            meta["expect_covers"][k] = list(v.items) if isinstance(v, ListV) else list(v)
    return jobs, meta


def native_harness_names(propmod):
    """the HARNESSES list of a property module, obtained by importing it under CPython"""
    env = dict(os.environ)
    repo_src = os.environ.get("PYVC_REPO_SRC", "/repo/src")
    env["PYTHONPATH"] = VERIF + os.pathsep + repo_src
    env["PYTHONDONTWRITEBYTECODE"] = "1"
    py = os.environ.get("PYVC_NATIVE_PYTHON", "/venv/bin/python")
    code = "import json, importlib; m = importlib.import_module('contracts.%s'); print(json.dumps([[f.__module__, f.__name__] for f in m.HARNESSES]))" % propmod
    try:
        p = subprocess.run([py, "-c", code], capture_output=True, text=True, timeout=120, env=env, cwd=VERIF)
        return [tuple(x) for x in json.loads(p.stdout.strip().splitlines()[-1])]
    except Exception:  # noqa: BLE001
        return None


def native_replay(modname, fname, replay_path):
    env = dict(os.environ)
    repo_src = os.environ.get("PYVC_REPO_SRC", "/repo/src")
    env["PYTHONPATH"] = VERIF + os.pathsep + repo_src
    env["PYTHONDONTWRITEBYTECODE"] = "1"
    py = os.environ.get("PYVC_NATIVE_PYTHON", "/venv/bin/python")
    try:
        p = subprocess.run([py, "-m", "pyvc.native", modname, fname, replay_path], capture_output=True, text=True, timeout=120, env=env, cwd=VERIF)
    except subprocess.TimeoutExpired:
        return {"verdict": "timeout"}
    try:
        return json.loads(p.stdout.strip().splitlines()[-1])
    except Exception:
        return {"verdict": "crash", "stdout": p.stdout[-2000:], "stderr": p.stderr[-2000:]}


def native_fuzz(modname, fname, n, seed, budget_s):
    env = dict(os.environ)
    repo_src = os.environ.get("PYVC_REPO_SRC", "/repo/src")
    env["PYTHONPATH"] = VERIF + os.pathsep + repo_src
    env["PYTHONDONTWRITEBYTECODE"] = "1"
    py = os.environ.get("PYVC_NATIVE_PYTHON", "/venv/bin/python")
    try:
        p = subprocess.run([py, "-m", "pyvc.native", "--fuzz", modname, fname, str(n), str(seed), str(budget_s)], capture_output=True, text=True, timeout=budget_s + 60, env=env, cwd=VERIF)
        return json.loads(p.stdout.strip().splitlines()[-1])
    except Exception as exc:  # noqa: BLE001
        return {"verdict": "crash", "reason": repr(exc)}


def load_known_findings():
    path = os.path.join(VERIF, "known_findings.json")
    if not os.path.exists(path):
        return []
    with open(path) as f:
        return json.load(f).get("findings", [])


def main(argv=None):
    ap = argparse.ArgumentParser()
    ap.add_argument("prop")
    ap.add_argument("--tier", default=os.environ.get("VERIF_TIER", "quick"))
    ap.add_argument("--jobs", type=int, default=min(16, os.cpu_count() or 4))
    ap.add_argument("--only", default=None)
    ap.add_argument("--no-evidence", action="store_true")
    ap.add_argument("-v", "--verbose", action="store_true")
    args = ap.parse_args(argv)
    prop = args.prop.upper()
    tier = args.tier if args.tier in ("quick", "thorough") else "quick"
    seed = int(os.environ.get("VERIF_SEED", "0") or 0)
    t0 = time.time()
    opts = {
        "timeout_ms": 15000 if tier == "quick" else 90000,
        "branch_timeout_ms": 3000 if tier == "quick" else 10000,
        "max_paths": 30000 if tier == "quick" else 200000,
        "cvc5_sample": 0.0 if tier == "quick" else 0.004,
    }
    load_problem = None
    try:
        jobs, meta = list_harnesses(prop)
    except OutsideSubset as exc:
        load_problem = f"{exc}"
    except VCError as exc:
        print(f"CHECKER-ERROR property={prop} {type(exc).__name__}: {exc}")
        return 3
    except Exception as exc:  # noqa: BLE001 - e.g. an exception the interpreted module raised while loading
        load_problem = f"{type(exc).__name__}: {exc}"
    if load_problem is not None:
        # the repository's modules themselves can no longer be loaded by the interpreter (a
        # construct outside its subset at import time): nothing is proved, every harness
        # runs as its bounded stand-in on the real package
        names = native_harness_names(prop.lower())
        if names is None:
            print(f"CHECKER-ERROR property={prop} the modules under verification cannot be loaded ({load_problem}) and the harness list could not be obtained natively")
            return 3
        jobs = names
        meta = {"under_contract": [], "assumed_contracts": [], "assumptions": [], "expect_covers": {}, "level": "other", "bounded": [], "explanation": "", "relevant": [], "crosscheck": []}
        results = [
            {"harness": f"{m}.{f}", "checks": [], "covers": [], "notes": [], "paths": 0, "aborted": 0, "secs": 0.0, "error": f"outside-subset: the code under verification cannot be loaded by the interpreter ({load_problem})"}
            for (m, f) in jobs
            if not f.startswith("canary_")
        ]
        return report(prop, tier, seed, t0, results, meta, args)
    if args.only:
        jobs = [j for j in jobs if args.only in j[1]]
    propmod = prop.lower()
    work = [(propmod, m, f, opts) for (m, f) in jobs]
    if args.jobs > 1:
        # stage 1: every harness breadth-first until it has fanned out into enough pending
        # decision prefixes; stage 2: the pending prefixes of all harnesses, in parallel
        opts["fanout"] = 3 * args.jobs
        with multiprocessing.get_context("fork").Pool(args.jobs) as pool:
            first = pool.map(run_harness, work, chunksize=1)
            shards = []
            for w, r in zip(work, first):
                rem = r.pop("remaining", None) or []
                step = max(1, (len(rem) + args.jobs - 1) // args.jobs)
                for i in range(0, len(rem), step):
                    shards.append((w[0], w[1], w[2], w[3], rem[i : i + step]))
            more = pool.map(run_harness, shards, chunksize=1) if shards else []
        results = merge_results(first, more)
    else:
        results = [run_harness(w) for w in work]

    if args.verbose:
        for r in sorted(results, key=lambda r: -r["secs"]):
            print(f"  {r['harness']}: paths={r['paths']} aborted={r['aborted']} checks={len(r['checks'])} secs={r['secs']:.1f} err={r['error']}")
    crosscheck = []
    if tier == "thorough" and not args.only:
        # CPython cross-check: every harness also runs natively on generated inputs against
        # the real package; a failing input is a violation whatever the solver said
        from multiprocessing.dummy import Pool as ThreadPool

        names = [(m, f) for (m, f) in jobs if not f.startswith("canary_")]
        with ThreadPool(min(args.jobs, max(1, len(names)))) as tp:
            outs = tp.map(lambda mf: native_fuzz(mf[0], mf[1], 4000, seed + 1, 90), names)
        crosscheck = list(zip(names, outs))
    meta["crosscheck"] = crosscheck
    return report(prop, tier, seed, t0, results, meta, args)


def report(prop, tier, seed, t0, results, meta, args):
    errors = []
    obligations = {}  # (harness, label) -> {status, n, secs, solver set, sample}
    refuted = []
    unknown = []
    solver_secs = 0.0
    by_solver = {}
    total_queries = 0
    notes = set()
    bounded_runs = []
    fuzz_violations = []
    for r in results:
        h = r["harness"]
        short = h.split(".", 1)[1] if h.startswith("contracts.") else h
        if r["error"] and r["error"].startswith("outside-subset") and not short.rsplit(".", 1)[-1].startswith("canary_"):
            # the function left the verifier's subset: the same executable contract is
            # checked by a bounded search on the real code (never counted as proved)
            modname, fname = h.rsplit(".", 1)
            n = 3000 if tier == "quick" else 60000
            fz = native_fuzz(modname, fname, n, seed, 60 if tier == "quick" else 600)
            bounded_runs.append({"harness": short, "why": r["error"], "bound": f"{fz.get('runs', 0)} generated inputs (seed {seed})", "result": fz.get("verdict")})
            if fz.get("verdict") == "confirmed":
                fuzz_violations.append((h, short, fz))
            elif fz.get("verdict") != "nothing-found":
                errors.append(f"{short}: {r['error']}; bounded stand-in failed: {fz}")
            continue
        if r["error"]:
            errors.append(f"{short}: {r['error']}")
            continue
        notes |= {tuple(n) for n in r["notes"]}
        is_canary = short.rsplit(".", 1)[-1].startswith("canary_")
        if not r["checks"]:
            errors.append(f"{short}: harness produced no obligation (vacuous)")
        if r["paths"] - r["aborted"] <= 0:
            errors.append(f"{short}: every path was cut by an assumption (vacuous)")
        for lbl in meta["expect_covers"].get(short.rsplit(".", 1)[-1], []):
            if lbl not in r["covers"]:
                errors.append(f"{short}: cover point {lbl!r} not reached (vacuity guard)")
        if is_canary:
            if not any(c["status"] == "refuted" for c in r["checks"]):
                errors.append(f"{short}: canary (deliberately false obligation) was not refuted")
            continue
        for c in r["checks"]:
            total_queries += 1
            solver_secs += c["secs"]
            by_solver[c["solver"]] = by_solver.get(c["solver"], 0) + 1
            key = (short, c["label"])
            o = obligations.setdefault(key, {"status": "proved", "instances": 0, "secs": 0.0, "where": c["where"]})
            o["instances"] += 1
            o["secs"] += c["secs"]
            if c["status"] == "refuted":
                if o["status"] != "refuted":
                    o["status"] = "refuted"
                    refuted.append((h, c))
            elif c["status"] == "unknown" and o["status"] == "proved":
                o["status"] = "unknown"
                unknown.append((h, c))

    # a finding is identified by harness + obligation label; the same obligation can be part of
    # several properties' checks (e.g. reboot detection under C05 and C07)
    known = [k for k in load_known_findings() if k.get("status", "open") == "open"]
    violations = []
    known_hit = []
    os.makedirs(os.path.join(VERIF, "replays", prop), exist_ok=True)
    for h, c in refuted:
        short = h.split(".", 1)[1] if h.startswith("contracts.") else h
        modname, fname = h.rsplit(".", 1)
        safe = (fname + "." + c["label"]).replace("/", "_").replace(" ", "_")[:150]
        rp = os.path.join(VERIF, "replays", prop, safe + ".json")
        rec = {
            "property": prop,
            "harness": h,
            "obligation": f"{short}:{c['label']}",
            "where": c["where"],
            "solver": c["solver"],
            "model": c["model"],
            "how_to_replay": f"PYTHONPATH=/verif:/repo/src /venv/bin/python -m pyvc.native {modname} {fname} {rp}",
        }
        with open(rp, "w") as f:
            json.dump(rec, f, indent=1, default=repr)
        nat = native_replay(modname, fname, rp)
        if nat.get("verdict") != "confirmed" and not os.environ.get("PYVC_NO_SEARCH"):
            # the solver's model is a state inside the function (e.g. an arbitrary loop
            # iteration) that the replay could not reach from the harness inputs: search
            # for a concrete failing input of the same harness on the real code
            fz = native_fuzz(modname, fname, 4000 if tier == "quick" else 40000, seed, 45 if tier == "quick" else 300)
            if fz.get("verdict") == "confirmed":
                rec["solver_model"] = rec["model"]
                rec["model"] = fz["model"]
                rec["found_by"] = "solver refuted the obligation; failing input found by a native search of the same harness"
                nat = fz
        rec["native"] = nat
        with open(rp, "w") as f:
            json.dump(rec, f, indent=1, default=repr)
        harness_broken = None
        for v_ in (nat, locals().get("fz") or {}):
            if v_.get("verdict") == "invalid" and "harness itself raised" in str(v_.get("reason", "")):
                harness_broken = v_.get("reason")
        if harness_broken is not None and nat.get("verdict") != "confirmed":
            # on the real code the harness cannot even be evaluated (it reads or writes
            # something the code no longer has): its symbolic refutation rests on a view of
            # the code that is out of date -- a checker error, not evidence about the property
            msg = f"{short}: {harness_broken}; obligation {c['label']} could not be judged"
            if msg not in errors:
                errors.append(msg)
            continue
        kf = None
        for k in known:
            if (k.get("harness") == fname and c["label"].startswith(k.get("label", "\0"))) or (k.get("region") and k["region"] in c["label"]):
                kf = k
        if kf is not None:
            known_hit.append((kf, rp, nat))
        else:
            violations.append((short, c, rp, nat))

    for h, short, fz in fuzz_violations:
        modname, fname = h.rsplit(".", 1)
        lab = fz["failed"][0]["label"]
        rp = os.path.join(VERIF, "replays", prop, (fname + ".bounded." + lab).replace("/", "_")[:150] + ".json")
        with open(rp, "w") as f:
            json.dump({"property": prop, "harness": h, "obligation": f"{short}:{lab}", "found_by": "bounded stand-in (generated inputs on the real code)", "model": fz["model"], "native": fz,
                       "how_to_replay": f"PYTHONPATH=/verif:/repo/src /venv/bin/python -m pyvc.native {modname} {fname} {rp}"}, f, indent=1, default=repr)
        kf = None
        for k in known:
            if (k.get("harness") == fname and lab.startswith(k.get("label", "\0"))) or (k.get("region") and k["region"] in lab):
                kf = k
        if kf is not None:
            known_hit.append((kf, rp, fz))
        else:
            violations.append((short, {"label": lab, "where": "bounded stand-in", "model": fz["model"]}, rp, fz))

    # undecided obligations: a native search of the same harness may still produce a failing
    # input on the real code (then it is a violation); it can never turn `unknown` into `proved`
    if unknown and not violations and not os.environ.get("PYVC_NO_SEARCH"):
        seen_h = set()
        for h, c in unknown:
            if h in seen_h:
                continue
            seen_h.add(h)
            modname, fname = h.rsplit(".", 1)
            short = h.split(".", 1)[1] if h.startswith("contracts.") else h
            fz = native_fuzz(modname, fname, 4000 if tier == "quick" else 40000, seed, 45 if tier == "quick" else 300)
            if fz.get("verdict") == "confirmed":
                lab = fz["failed"][0]["label"]
                rp = os.path.join(VERIF, "replays", prop, (fname + ".search." + lab).replace("/", "_")[:150] + ".json")
                with open(rp, "w") as f:
                    json.dump({"property": prop, "harness": h, "obligation": f"{short}:{lab}", "found_by": "obligation undecided by the solvers; failing input found by a native search of the same harness",
                               "undecided": c["label"], "model": fz["model"], "native": fz,
                               "how_to_replay": f"PYTHONPATH=/verif:/repo/src /venv/bin/python -m pyvc.native {modname} {fname} {rp}"}, f, indent=1, default=repr)
                violations.append((short, {"label": lab, "where": "native search after solver unknown", "model": fz["model"]}, rp, fz))

    cc_runs = 0
    for (modname, fname), fz in meta.get("crosscheck", []):
        cc_runs += int(fz.get("runs", 0) or 0)
        if fz.get("verdict") == "confirmed":
            lab = fz["failed"][0]["label"]
            short = modname.split(".", 1)[1] + "." + fname if modname.startswith("contracts.") else modname + "." + fname
            rp = os.path.join(VERIF, "replays", prop, (fname + ".crosscheck." + lab).replace("/", "_")[:150] + ".json")
            with open(rp, "w") as f:
                json.dump({"property": prop, "harness": modname + "." + fname, "obligation": f"{short}:{lab}", "found_by": "thorough tier: native cross-check of the harness on generated inputs",
                           "model": fz["model"], "native": fz, "how_to_replay": f"PYTHONPATH=/verif:/repo/src /venv/bin/python -m pyvc.native {modname} {fname} {rp}"}, f, indent=1, default=repr)
            kf = None
            for k in known:
                if (k.get("harness") == fname and lab.startswith(k.get("label", "\0"))) or (k.get("region") and k["region"] in lab):
                    kf = k
            if kf is not None:
                if not any(kf is x[0] for x in known_hit):
                    known_hit.append((kf, rp, fz))
            else:
                violations.append((short, {"label": lab, "where": "native cross-check", "model": fz["model"]}, rp, fz))
        elif fz.get("verdict") not in ("nothing-found",):
            errors.append(f"{fname}: native cross-check did not run: {str(fz)[:300]}")

    wall = time.time() - t0
    n_ob = len(obligations)
    n_dis = sum(1 for o in obligations.values() if o["status"] == "proved")
    level = meta["level"] if not (known_hit or meta["bounded"] or bounded_runs) else "other"
    if n_ob == 0 and not errors and not bounded_runs:
        errors.append("no obligation generated")

    samples = []
    for (hname, label), o in list(obligations.items())[:6]:
        samples.append({"obligation": f"{hname}:{label}", "status": o["status"], "path_instances": o["instances"], "where": o["where"]})
    trusted = sorted({f"{k}: {v}" for (k, v) in notes if k in ("axiom", "opaque", "inlined")})
    by_contract = sorted({v for (k, v) in notes if k == "by-contract"})
    coverage = {
        "obligations": n_ob,
        "discharged": n_dis,
        "checker_cmd": f"python3-vt pyvc/check.py {prop} --tier {tier}",
        "trusted_base": [
            "pyvc symbolic interpreter of the Python AST (encoding of Python semantics, DESIGN.md 2.2-2.3)",
            "per-call contracts extend to call histories by induction over the global frame, which is checked on every path for the namespaces of the someip modules and their classes (DESIGN.md 3.5); state kept in closures, function attributes or C-level caches is not tracked",
            "library models in pyvc/lib.py, pyvc/ghost.py (struct, enum, dataclasses, dict/list/bytes, asyncio loop model)",
            "z3 5.1.0 (cvc5 1.0.3 for z3-unknowns)",
        ]
        + trusted
        + [f"assumed contract (not proved): {q}" for q in meta.get("assumed_contracts", [])],
        "functions_under_contract": meta["relevant"] or meta["under_contract"],
        "callees_replaced_by_contract": by_contract,
        "solver_queries": total_queries,
        "queries_by_backend": by_solver,
        "solver_seconds": round(solver_secs, 3),
        "paths_explored": sum(r["paths"] for r in results),
        "harnesses": len(results),
        "refuted": [f"{s}:{c['label']}" for (s, c, _, _) in violations],
        "undecided": [f"{h}:{c['label']} ({c['reason']})" for (h, c) in unknown],
        "known_findings_hit": [k["id"] for (k, _, _) in known_hit],
        "bounded_stand_ins": meta["bounded"] + bounded_runs,
        "native_crosscheck_runs": cc_runs,
        "cvc5_second_opinion_on_sampled_discharged_obligations": {k: sum((r.get("cvc5") or {}).get(k, 0) for r in results) for k in ("unsat", "unknown", "sat")},
        "samples": samples,
        "explanation": meta["explanation"]
        or "every obligation is a verification condition generated from the current source of /repo by symbolic execution of the real AST against sidecar contracts, discharged by an SMT solver for all inputs",
        "errors": errors,
    }
    evidence = {
        "property_id": prop,
        "tier": tier,
        "seed": seed,
        "level": level,
        "coverage": coverage,
        "assumptions": meta["assumptions"],
        "wall_s": round(wall, 2),
        "violations": len(violations),
    }
    if not args.no_evidence and not args.only:
        os.makedirs(os.path.join(VERIF, "evidence"), exist_ok=True)
        with open(os.path.join(VERIF, "evidence", prop + ".json"), "w") as f:
            json.dump(evidence, f, indent=1, default=repr)

    print(f"[{prop}] tier={tier} harnesses={len(results)} obligations={n_ob} discharged={n_dis} queries={total_queries} solver_s={solver_secs:.1f} wall_s={wall:.1f}")
    for b in bounded_runs:
        print(f"BOUNDED-FALLBACK property={prop} harness={b['harness']} ({b['why']}): {b['bound']} -> {b['result']}")
    seen_kf = set()
    for k, rp, nat in known_hit:
        if k["id"] in seen_kf:
            continue
        seen_kf.add(k["id"])
        print(f"KNOWN-FINDING: property={prop} {k['id']} {k['what']} (replay={rp}, native={nat.get('verdict')})")
    for e in errors:
        print(f"CHECKER-ERROR property={prop} {e}")
    for h, c in unknown:
        print(f"UNDECIDED property={prop} obligation={h}:{c['label']} reason={c['reason']}")
    for short, c, rp, nat in violations:
        tail = "" if nat.get("verdict") == "confirmed" else " no-failing-input-found"
        print(f"  obligation {short}:{c['label']} refuted at {c['where']} model={json.dumps(c['model'], default=repr)[:400]} native={nat.get('verdict')}")
        print(f"VIOLATION property={prop} replay={rp}{tail}")
    if violations:
        return 1
    if errors:
        return 3
    if unknown:
        return 2
    return 0


if __name__ == "__main__":
    sys.exit(main())
