"""Universal z3 value sort `Val` and typed encodings, used for symbolic maps/sequences.

A type descriptor is a nested python structure that harness files can write literally (it
is inert data for the native twin):
    "int" | "bool" | "obj:<tag>" | "none" | ("tuple", d1, ..., dn) | ("opt", d)
    | ("dc", <dataclass>, ) -> tuple of its compare=True fields, field types given by a
      descriptor table registered with register_dataclass()
"""
from __future__ import annotations

import z3

from .engine import OutsideSubset, VCError
from .objects import ClassV, ObjV
from .values import EnumV, ObjSort, Opaque, SBool, SInt, int_term, mk_bool, mk_int, zint

_Val = z3.Datatype("Val")
_Val.declare("none")
_Val.declare("int", ("i", z3.IntSort()))
_Val.declare("bool", ("b", z3.BoolSort()))
_Val.declare("obj", ("o", ObjSort))
_Val.declare("nil")
_Val.declare("cons", ("hd", _Val), ("tl", _Val))
Val = _Val.create()


def norm_desc(d):
    """harness descriptors arrive as interpreter values (str / tuple) - keep as is"""
    return d


def encode_any(I, v):
    """structural encoding without a descriptor (keys of arbitrary shape)"""
    if v is None:
        return Val.none
    if isinstance(v, bool):
        return Val.bool(z3.BoolVal(v))
    if isinstance(v, SBool):
        return Val.bool(v.t)
    if isinstance(v, (int, SInt, EnumV)):
        return Val.int(zint(int_term(v)))
    if isinstance(v, Opaque):
        return Val.obj(v.t)
    if isinstance(v, tuple):
        t = Val.nil
        for x in reversed(v):
            t = Val.cons(encode_any(I, x), t)
        return t
    from .lazydict import enc_key

    return enc_key(I, v)


def model_any(model, v):
    ev = lambda x: model.eval(x, model_completion=True)
    v = ev(v)
    if z3.is_true(ev(Val.is_none(v))):
        return None
    if z3.is_true(ev(Val.is_int(v))):
        return ev(Val.i(v)).as_long()
    if z3.is_true(ev(Val.is_bool(v))):
        return bool(z3.is_true(ev(Val.b(v))))
    if z3.is_true(ev(Val.is_obj(v))):
        return str(ev(Val.o(v)))
    out = []
    cur = v
    n = 0
    while z3.is_true(ev(Val.is_cons(cur))) and n < 64:
        out.append(model_any(model, ev(Val.hd(cur))))
        cur = ev(Val.tl(cur))
        n += 1
    return out


def encode(I, d, v):
    """interpreter value -> Val term (raises OutsideSubset if v does not fit d)"""
    if d == "any":
        return encode_any(I, v)
    if d == "int":
        return Val.int(zint(int_term(v)))
    if d == "bool":
        if isinstance(v, bool):
            return Val.bool(z3.BoolVal(v))
        if isinstance(v, SBool):
            return Val.bool(v.t)
        raise OutsideSubset(f"encode: {v!r} is not a bool")
    if d == "none":
        return Val.none
    if isinstance(d, str) and d.startswith("obj"):
        if isinstance(v, Opaque):
            return Val.obj(v.t)
        if v is None:
            return Val.none
        raise OutsideSubset(f"encode: {v!r} is not an opaque value")
    if isinstance(d, tuple) and d[0] == "tuple":
        if not isinstance(v, tuple) or len(v) != len(d) - 1:
            raise OutsideSubset(f"encode: {v!r} is not a {len(d)-1}-tuple")
        t = Val.nil
        for sub, x in reversed(list(zip(d[1:], v))):
            t = Val.cons(encode(I, sub, x), t)
        return t
    if isinstance(d, tuple) and d[0] == "opt":
        if v is None:
            return Val.none
        return encode(I, d[1], v)
    if isinstance(d, tuple) and d[0] == "dc":
        cls, fields = d[1], d[2]
        if not isinstance(v, ObjV) or v.cls is not cls:
            raise OutsideSubset(f"encode: {v!r} is not a {cls.name}")
        t = Val.nil
        for name, sub in reversed(fields):
            t = Val.cons(encode(I, sub, v.fields[name]), t)
        return t
    raise VCError(f"bad type descriptor {d!r}")


def wellformed(d, t):
    """z3 Bool: term t has the shape of descriptor d"""
    if d == "any":
        return z3.BoolVal(True)
    if d == "int":
        return Val.is_int(t)
    if d == "bool":
        return Val.is_bool(t)
    if d == "none":
        return Val.is_none(t)
    if isinstance(d, str) and d.startswith("obj"):
        return Val.is_obj(t)
    if isinstance(d, tuple) and d[0] in ("tuple", "dc"):
        subs = list(d[1:]) if d[0] == "tuple" else [s for _, s in d[2]]
        conj = []
        cur = t
        for sub in subs:
            conj.append(Val.is_cons(cur))
            conj.append(wellformed(sub, Val.hd(cur)))
            cur = Val.tl(cur)
        conj.append(Val.is_nil(cur))
        return z3.And(conj)
    if isinstance(d, tuple) and d[0] == "opt":
        return z3.Or(Val.is_none(t), wellformed(d[1], t))
    raise VCError(f"bad type descriptor {d!r}")


def decode(I, d, t, assume_wf=True):
    """Val term -> interpreter value; the typing invariant of the container is assumed"""
    t = z3.simplify(t)
    if assume_wf:
        I.ctx.assume(wellformed(d, t))
    return _decode(I, d, t)


def _decode(I, d, t):
    if d == "int":
        return mk_int(Val.i(t))
    if d == "bool":
        return mk_bool(Val.b(t))
    if d == "none":
        return None
    if isinstance(d, str) and d.startswith("obj"):
        tag = d.split(":", 1)[1] if ":" in d else "obj"
        return Opaque(z3.simplify(Val.o(t)), tag)
    if isinstance(d, tuple) and d[0] == "tuple":
        out = []
        cur = t
        for sub in d[1:]:
            out.append(_decode(I, sub, z3.simplify(Val.hd(cur))))
            cur = z3.simplify(Val.tl(cur))
        return tuple(out)
    if isinstance(d, tuple) and d[0] == "opt":
        if I.ctx.decide(Val.is_none(t)):
            return None
        return _decode(I, d[1], t)
    if isinstance(d, tuple) and d[0] == "dc":
        cls, fields = d[1], d[2]
        kw = {}
        cur = t
        for name, sub in fields:
            kw[name] = _decode(I, sub, z3.simplify(Val.hd(cur)))
            cur = z3.simplify(Val.tl(cur))
        return I.instantiate(cls, [], kw, None)
    raise VCError(f"bad type descriptor {d!r}")


def model_value(model, d, t):
    """Val term under a model -> JSON-able python value"""
    v = model.eval(t, model_completion=True)
    return _model_value(model, d, v)


def _model_value(model, d, v):
    ev = lambda x: model.eval(x, model_completion=True)
    if d == "any":
        return model_any(model, v)
    if d == "int":
        return ev(Val.i(v)).as_long()
    if d == "bool":
        return bool(z3.is_true(ev(Val.b(v))))
    if d == "none":
        return None
    if isinstance(d, str) and d.startswith("obj"):
        return str(ev(Val.o(v)))
    if isinstance(d, tuple) and d[0] in ("tuple", "dc"):
        subs = list(d[1:]) if d[0] == "tuple" else [s for _, s in d[2]]
        out = []
        cur = v
        for sub in subs:
            out.append(_model_value(model, sub, ev(Val.hd(cur))))
            cur = ev(Val.tl(cur))
        return out
    if isinstance(d, tuple) and d[0] == "opt":
        if z3.is_true(ev(Val.is_none(v))):
            return None
        return _model_value(model, d[1], v)
    raise VCError(f"bad type descriptor {d!r}")


class KeySort:
    """key codec of a MapV"""

    def __init__(self, desc):
        self.desc = desc

    def encode(self, I, key):
        return encode(I, self.desc, key)
