"""Interpreter-side object model: functions, classes, instances, modules."""
from __future__ import annotations


class Env:
    __slots__ = ("vars", "parent", "is_class", "declared", "func", "module")

    def __init__(self, parent=None, is_class=False, func=None, module=None):
        self.vars = {}
        self.parent = parent
        self.is_class = is_class
        self.declared = None  # names declared global/nonlocal -> env
        self.func = func
        self.module = module if module is not None else (parent.module if parent else None)

    def lookup(self, name):
        e = self
        first = True
        while e is not None:
            # class namespaces are only visible from the class body itself
            if (first or not e.is_class) and name in e.vars:
                return e.vars[name]
            first = False
            e = e.parent
        raise KeyError(name)

    def assign(self, name, value):
        if self.declared and name in self.declared:
            self.declared[name].vars[name] = value
        else:
            self.vars[name] = value

    def nonclass_parent(self):
        e = self
        while e is not None and e.is_class:
            e = e.parent
        return e


class FuncV:
    __slots__ = ("node", "env", "qualname", "name", "defcls", "is_async", "decorators", "wraps", "module", "is_lambda")

    def __init__(self, node, env, qualname, defcls=None, is_async=False, is_lambda=False):
        self.node = node
        self.env = env
        self.qualname = qualname
        self.name = getattr(node, "name", "<lambda>")
        self.defcls = defcls
        self.is_async = is_async
        self.module = env.module if env else None
        self.is_lambda = is_lambda
        self.wraps = None

    def __repr__(self):
        return f"<func {self.qualname}>"


class BoundMethod:
    __slots__ = ("func", "self_")

    def __init__(self, func, self_):
        self.func = func
        self.self_ = self_

    def __repr__(self):
        return f"<bound {self.func!r} of {type(self.self_).__name__}>"


class BuiltinFn:
    __slots__ = ("name", "fn")

    def __init__(self, name, fn):
        self.name = name
        self.fn = fn

    def __repr__(self):
        return f"<builtin {self.name}>"


class BuiltinMethod:
    """method of a built-in value (list.append, bytes.find, ...), dispatched in lib"""

    __slots__ = ("obj", "name")

    def __init__(self, obj, name):
        self.obj = obj
        self.name = name

    def __repr__(self):
        return f"<method {self.name} of {type(self.obj).__name__}>"


class PropertyV:
    __slots__ = ("fget", "cached")

    def __init__(self, fget, cached=False):
        self.fget = fget
        self.cached = cached


class ClassMethodV:
    __slots__ = ("func",)

    def __init__(self, func):
        self.func = func


class StaticMethodV:
    __slots__ = ("func",)

    def __init__(self, func):
        self.func = func


class DCField:
    __slots__ = ("name", "default", "default_factory", "compare", "has_default")

    def __init__(self, name, default=None, default_factory=None, compare=True, has_default=False):
        self.name = name
        self.default = default
        self.default_factory = default_factory
        self.compare = compare
        self.has_default = has_default


class FieldSpec:
    """result of dataclasses.field(...)"""

    __slots__ = ("default", "default_factory", "compare", "has_default")

    def __init__(self, default=None, default_factory=None, compare=True, has_default=False):
        self.default = default
        self.default_factory = default_factory
        self.compare = compare
        self.has_default = has_default


class ClassV:
    def __init__(self, name, bases, ns, qualname=None, module=None, builtin=False):
        self.name = name
        self.qualname = qualname or name
        self.bases = [b for b in bases if isinstance(b, ClassV)]
        self.ns = ns
        self.module = module
        self.builtin = builtin
        self.is_dataclass = False
        self.frozen = False
        self.dc_fields = None  # list[DCField] (including inherited) once decorated
        self.annotations = []  # (name, is_classvar) in class-body order
        self.is_enum = False
        self.enum_members = {}  # name -> EnumV
        self.mro = self._c3()

    def _c3(self):
        seqs = [list(b.mro) for b in self.bases] + [list(self.bases)]
        res = [self]
        while True:
            seqs = [s for s in seqs if s]
            if not seqs:
                return res
            for s in seqs:
                cand = s[0]
                if not any(cand in t[1:] for t in seqs):
                    break
            else:
                raise TypeError("inconsistent MRO")
            res.append(cand)
            for s in seqs:
                if s[0] is cand:
                    del s[0]

    def lookup(self, name, after=None):
        mro = self.mro
        if after is not None:
            mro = mro[mro.index(after) + 1 :]
        for c in mro:
            if name in c.ns:
                return c.ns[name], c
        return None, None

    def issubclass(self, other):
        return other in self.mro

    def __repr__(self):
        return f"<class {self.qualname}>"


class ObjV:
    __slots__ = ("cls", "fields", "tag")

    def __init__(self, cls, fields=None, tag=None):
        self.cls = cls
        self.fields = fields if fields is not None else {}
        self.tag = tag

    def __repr__(self):
        return f"<{self.cls.name} {self.fields}>"


class ModuleV:
    def __init__(self, name, ns=None, native=None):
        self.name = name
        self.ns = ns if ns is not None else {}
        self.native = native  # real python module for constant passthrough

    def __repr__(self):
        return f"<module {self.name}>"


class TypingV:
    """anything from `typing`: subscripts, calls and attribute reads give another TypingV"""

    def __repr__(self):
        return "<typing>"


class SuperV:
    __slots__ = ("cls", "self_")

    def __init__(self, cls, self_):
        self.cls = cls
        self.self_ = self_


class GenV:
    """unevaluated generator expression"""

    __slots__ = ("node", "env")

    def __init__(self, node, env):
        self.node = node
        self.env = env


class CoroV:
    """coroutine object: function + bound arguments, run when awaited / scheduled"""

    __slots__ = ("func", "args", "kwargs", "started", "state", "body_ids")

    def __init__(self, func, args, kwargs):
        self.func = func
        self.args = args
        self.kwargs = kwargs
        self.started = False
        self.state = None
        self.body_ids = ()  # functions under verification while this coroutine runs


class StructV:
    __slots__ = ("fmt", "items", "size", "little")

    def __init__(self, fmt, items, size, little=False):
        self.fmt = fmt
        self.items = items  # list of (code, width)
        self.size = size
        self.little = little


class BodyOf:
    """vc.body(f): execute f's real body even though f has a contract"""

    __slots__ = ("target",)

    def __init__(self, target):
        self.target = target


class Outcome:
    """result of vc.outcome(f, ...): kind 'ret' | 'raise'"""

    __slots__ = ("kind", "value", "exc")

    def __init__(self, kind, value=None, exc=None):
        self.kind = kind
        self.value = value
        self.exc = exc

    def __repr__(self):
        return f"Outcome({self.kind}, {self.value!r}, {self.exc!r})"
