"""Byte-string ropes: length, indexing, slicing, struct pack/unpack, equality.

Every query these helpers issue is linear integer arithmetic over segment lengths; byte
contents live behind uninterpreted functions (View) or are explicit terms (Unit).
"""
from __future__ import annotations

import z3

from .engine import OutsideSubset
from .values import SBytes, SInt, Unit, View, as_const, mk_int, zadd, zint, zsub


def seg_len(s):
    return 1 if isinstance(s, Unit) else s.n


def _cmp(ctx, a, op, b):
    """decide a <op> b for ints / z3 terms"""
    if isinstance(a, int) and isinstance(b, int):
        return {"<": a < b, "<=": a <= b, ">": a > b, ">=": a >= b, "==": a == b}[op]
    za, zb = zint(a), zint(b)
    f = {"<": za < zb, "<=": za <= zb, ">": za > zb, ">=": za >= zb, "==": za == zb}[op]
    return ctx.decide(f)


def view_byte(ctx, fn, idx):
    """fn(idx) with the byte-range background fact"""
    t = fn(zint(idx))
    ctx.assume(z3.And(t >= 0, t < 256))
    return t


def fresh_view(ctx, name, n):
    fn = z3.Function(ctx.fresh_name(name), z3.IntSort(), z3.IntSort())
    return View(fn, 0, n)


def rope_len(rope: SBytes):
    return rope.length()


def norm_segs(segs):
    out = []
    for s in segs:
        if isinstance(s, View) and isinstance(s.n, int) and s.n == 0:
            continue
        if isinstance(s, View) and isinstance(s.n, int) and s.n <= 64 and isinstance(s.off, int):
            pass
        out.append(s)
    return tuple(out)


def take(ctx, rope: SBytes, k):
    """first k bytes, 0 <= k <= len(rope) known to the caller"""
    out = []
    rem = k
    for s in rope.segs:
        if _cmp(ctx, rem, "<=", 0):
            break
        n = seg_len(s)
        if _cmp(ctx, rem, ">=", n):
            out.append(s)
            rem = as_const(zsub(rem, n))
        else:
            # partial: only a View can be cut
            out.append(View(s.fn, s.off, rem))
            rem = 0
            break
    return SBytes(norm_segs(out))


def drop(ctx, rope: SBytes, k):
    """all but the first k bytes, 0 <= k <= len(rope)"""
    segs = list(rope.segs)
    rem = k
    i = 0
    while i < len(segs):
        if _cmp(ctx, rem, "<=", 0):
            break
        s = segs[i]
        n = seg_len(s)
        if _cmp(ctx, rem, ">=", n):
            rem = as_const(zsub(rem, n))
            i += 1
        else:
            segs[i] = View(s.fn, as_const(zadd(s.off, rem)), as_const(zsub(s.n, rem)))
            rem = 0
            break
    return SBytes(norm_segs(segs[i:]))


def _norm_index(ctx, x, L, default):
    """python slice bound normalisation (slice.indices with step 1)"""
    if x is None:
        return default
    if _cmp(ctx, x, "<", 0):
        x = as_const(zadd(x, L))
        if _cmp(ctx, x, "<", 0):
            x = 0
    elif _cmp(ctx, x, ">", L):
        x = L
    return x


def slice_(ctx, rope: SBytes, lo, hi):
    L = rope.length()
    lo = _norm_index(ctx, lo, L, 0)
    hi = _norm_index(ctx, hi, L, L)
    if _cmp(ctx, hi, "<=", lo):
        return SBytes(())
    return drop(ctx, take(ctx, rope, hi), lo)


def index(ctx, rope: SBytes, i):
    """rope[i] for 0 <= i < len (caller has established the bounds) -> int | z3 term"""
    rem = i
    for s in rope.segs:
        n = seg_len(s)
        if _cmp(ctx, rem, "<", n):
            if isinstance(s, Unit):
                return s.b
            return view_byte(ctx, s.fn, zadd(s.off, rem))
        rem = as_const(zsub(rem, n))
    raise OutsideSubset("rope index past the end")


def at_term(ctx, rope: SBytes, i):
    """rope[i] as one z3 term (nested If over segment boundaries); i a z3 term in range"""
    pos = 0
    cases = []
    for s in rope.segs:
        n = seg_len(s)
        end = zadd(pos, n)
        if isinstance(s, Unit):
            val = zint(s.b)
        else:
            val = view_byte(ctx, s.fn, zadd(s.off, zsub(i, pos)))
        cases.append((end, val))
        pos = end
    if not cases:
        return z3.IntVal(0)
    res = cases[-1][1]
    for end, val in reversed(cases[:-1]):
        res = z3.If(zint(i) < zint(end), val, res)
    return res


def units(ctx, rope: SBytes, k: int):
    """exactly the first k (concrete) bytes as a list of int | z3 terms"""
    out = []
    for s in rope.segs:
        if len(out) >= k:
            break
        if isinstance(s, Unit):
            out.append(s.b)
            continue
        need = k - len(out)
        if isinstance(s.n, int):
            m = min(need, s.n)
        elif ctx.entails(zint(s.n) >= need):
            m = need
        else:
            # fork on the exact length of this view
            m = None
            for c in range(need):
                if _cmp(ctx, s.n, "==", c):
                    m = c
                    break
            if m is None:
                m = need
        for j in range(m):
            out.append(view_byte(ctx, s.fn, zadd(s.off, j)))
    if len(out) < k:
        raise OutsideSubset("rope shorter than requested units")
    return out[:k]


def be_value(bs):
    """big-endian value of byte list -> int | SInt with digit provenance"""
    if all(isinstance(b, int) for b in bs):
        v = 0
        for b in bs:
            v = v * 256 + b
        return v
    t = z3.IntVal(0)
    w = len(bs)
    for i, b in enumerate(bs):
        t = t + zint(b) * (256 ** (w - 1 - i))
    return SInt(z3.simplify(t), digits=tuple(bs))


def be_bytes(ctx, v, w):
    """w big-endian bytes of v, 0 <= v < 256**w established by the caller"""
    if isinstance(v, int):
        return [Unit(b) for b in v.to_bytes(w, "big")]
    if w == 1:
        return [Unit(v.t)]
    if v.digits is not None and len(v.digits) == w:
        return [Unit(b) for b in v.digits]
    # the digits of one value are unique: one set of digit symbols per (value, width) and path
    memo = getattr(ctx, "_digits", None)
    if memo is None:
        memo = ctx._digits = {}
    key = (z3.simplify(v.t).sexpr(), w)
    if key not in memo:
        xs = [ctx.fresh_int("byte") for _ in range(w)]
        for x in xs:
            ctx.assume(z3.And(x >= 0, x < 256))
        ctx.assume(v.t == z3.Sum([x * (256 ** (w - 1 - i)) for i, x in enumerate(xs)]))
        memo[key] = xs
    return [Unit(x) for x in memo[key]]


def eq_formula(ctx, a: SBytes, b: SBytes):
    """a == b as a quantifier-free formula; lengths must be concretely comparable"""
    la, lb = a.length(), b.length()
    if isinstance(la, int) and isinstance(lb, int):
        if la != lb:
            return False
        if la <= 256:
            ua, ub = units(ctx, a, la), units(ctx, b, lb)
            conj = []
            for x, y in zip(ua, ub):
                if isinstance(x, int) and isinstance(y, int):
                    if x != y:
                        return False
                else:
                    conj.append(zint(x) == zint(y))
            return z3.And(conj) if conj else True
    # one side of small concrete length: length equation + pointwise comparison
    for x, y, lx, ly in ((a, b, la, lb), (b, a, lb, la)):
        if isinstance(lx, int) and lx <= 256 and not isinstance(ly, int):
            ux = units(ctx, x, lx)
            conj = [zint(ly) == lx]
            for i, bx in enumerate(ux):
                conj.append(at_term(ctx, y, z3.IntVal(i)) == zint(bx))
            return z3.And(conj)
    # aligned identical segments
    if len(a.segs) == len(b.segs):
        conj = []
        ok = True
        for s, t in zip(a.segs, b.segs):
            if isinstance(s, Unit) and isinstance(t, Unit):
                conj.append(zint(s.b) == zint(t.b))
            elif isinstance(s, View) and isinstance(t, View) and s.fn.eq(t.fn) and z3.eq(zint(s.off), zint(t.off)) and z3.eq(zint(s.n), zint(t.n)):
                continue
            else:
                ok = False
                break
        if ok:
            return z3.And(conj) if conj else True
    raise OutsideSubset("byte-string equality of unaligned symbolic-length ropes as a branch condition")


def prove_eq(ctx, a: SBytes, b: SBytes, label, where=""):
    """two obligations: equal length, equal content at a Skolem index"""
    la, lb = a.length(), b.length()
    ok = ctx.check(zint(la) == zint(lb) if not (isinstance(la, int) and isinstance(lb, int)) else la == lb, label + ".len", where)
    # fast path: syntactically identical
    if len(a.segs) == len(b.segs) and all(_same_seg(s, t) for s, t in zip(a.segs, b.segs)):
        ctx.check(True, label + ".content", where)
        return ok
    # Skolem index: the range is a premise of this obligation only (assuming it on the path
    # would make the path condition unsatisfiable for empty strings)
    i = ctx.fresh_int("sk")
    ta = at_term(ctx, a, i)
    tb = at_term(ctx, b, i)
    ok2 = ctx.check(z3.Implies(z3.And(i >= 0, i < zint(la)), ta == tb), label + ".content", where)
    return ok and ok2


def _same_seg(s, t):
    if isinstance(s, Unit) and isinstance(t, Unit):
        if isinstance(s.b, int) and isinstance(t.b, int):
            return s.b == t.b
        return z3.eq(zint(s.b), zint(t.b))
    if isinstance(s, View) and isinstance(t, View):
        return s.fn.eq(t.fn) and z3.eq(zint(s.off), zint(t.off)) and z3.eq(zint(s.n), zint(t.n))
    return False


def model_bytes(model, rope: SBytes, limit=1 << 26):
    """concrete bytes of a rope under a model -> hex string, or for long strings a compact
    {"len", "fill", "patch"} description read off the function interpretation"""
    ev = lambda t: model.eval(t, model_completion=True).as_long()
    total = 0
    parts = []
    for s in rope.segs:
        if isinstance(s, Unit):
            parts.append(("u", (s.b if isinstance(s.b, int) else ev(s.b)) & 0xFF))
            total += 1
        else:
            n = s.n if isinstance(s.n, int) else ev(zint(s.n))
            off = s.off if isinstance(s.off, int) else ev(zint(s.off))
            n = max(n, 0)
            parts.append(("v", s.fn, off, n))
            total += n
    if total > limit:
        raise ValueError(f"byte string of length {total} in counterexample")
    if total <= 8192:
        out = bytearray()
        for p in parts:
            if p[0] == "u":
                out.append(p[1])
            else:
                _, fn, off, n = p
                for j in range(n):
                    out.append(ev(fn(z3.IntVal(off + j))) & 0xFF)
        return bytes(out).hex()
    # long: default fill + explicit entries of the function interpretation
    patch = {}
    fill = 0
    pos = 0
    for p in parts:
        if p[0] == "u":
            patch[pos] = p[1]
            pos += 1
            continue
        _, fn, off, n = p
        fi = model[fn]
        if fi is not None:
            ev_else = fi.else_value()
            if z3.is_int_value(ev_else):
                fill = ev_else.as_long() & 0xFF
            for e in range(fi.num_entries()):
                ent = fi.entry(e)
                a = ent.arg_value(0)
                if z3.is_int_value(a):
                    idx = a.as_long() - off
                    if 0 <= idx < n and z3.is_int_value(ent.value()):
                        patch[pos + idx] = ent.value().as_long() & 0xFF
        for j in list(range(min(n, 64))) + list(range(max(n - 64, 0), n)):
            patch[pos + j] = ev(fn(z3.IntVal(off + j))) & 0xFF
        pos += n
    return {"len": total, "fill": fill, "patch": {str(k): v for k, v in patch.items() if v != fill}}
