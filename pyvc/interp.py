"""Symbolic interpreter of the Python AST of the real sources (DESIGN.md section 2).

The text that is executed is parsed from /repo/src/someip/*.py on every run; sidecar
contract/harness modules under /verif/contracts are interpreted by the same machinery.
"""
from __future__ import annotations

import ast
import os

import z3

from .engine import OutsideSubset, PathAbort, VCError
from .objects import (
    BodyOf,
    BoundMethod,
    BuiltinFn,
    BuiltinMethod,
    ClassMethodV,
    ClassV,
    CoroV,
    DCField,
    Env,
    FieldSpec,
    FuncV,
    GenV,
    ModuleV,
    ObjV,
    PropertyV,
    StaticMethodV,
    SuperV,
    TypingV,
)
from .values import (
    BytearrayV,
    DictV,
    EnumV,
    ListV,
    MapV,
    Opaque,
    SBool,
    SBytes,
    SeqV,
    SetV,
    SInt,
    SReal,
    SStr,
    SymListV,
)


class ReturnSig(Exception):
    def __init__(self, value):
        self.value = value


class BreakSig(Exception):
    pass


class ContinueSig(Exception):
    pass


class CutSig(Exception):
    """end of the arbitrary iteration of a cut loop: unwinds to the enclosing vc.outcome"""

    def __init__(self, loopname):
        self.loopname = loopname


class RaiseSig(Exception):
    """a Python exception raised by the interpreted program"""

    def __init__(self, exc, where=""):
        self.exc = exc  # ObjV of an exception class
        self.where = where

    def __str__(self):
        return f"RaiseSig({self.exc.cls.name} at {self.where})"


REPO_SRC = os.environ.get("PYVC_REPO_SRC", "/repo/src")
VERIF_ROOT = os.path.dirname(os.path.dirname(os.path.abspath(__file__)))


class World:
    """static state shared by all paths of one process: parsed modules, contracts"""

    def __init__(self, repo_src=None):
        self.repo_src = repo_src or os.environ.get("PYVC_REPO_SRC", "/repo/src")
        self.modules = {}
        self.asts = {}
        self.contracts = {}  # qualname -> spec FuncV
        self.assumed_contracts = set()
        self.broken_loops = {}
        self.abstract = {}  # qualname of a spec function -> {"gen": fn, "raises": tuple}
        self.loopspecs = {}  # (qualname, ordinal) -> LoopSpec
        self.funcs_by_qualname = {}
        self.source_files = {}

    def find_source(self, modname):
        parts = modname.split(".")
        if parts[0] == "someip":
            base = os.path.join(self.repo_src, *parts)
        elif parts[0] == "contracts":
            base = os.path.join(VERIF_ROOT, *parts)
        else:
            return None
        if os.path.isdir(base):
            return os.path.join(base, "__init__.py"), True
        if os.path.isfile(base + ".py"):
            return base + ".py", False
        return None


class Interp:
    def __init__(self, world=None):
        from . import lib

        self.world = world or World()
        self.ctx = None
        self.lib = lib
        self.builtins = lib.make_builtins(self)
        self.body_mode = set()
        self.call_depth = 0
        self.use_contracts = True
        self.ghost = None  # per-path ghost state (event loop, trace), created by lib.asyncio
        self.path_hooks = []  # callables run at start of each path (reset per-path state)
        self.stack = []
        from .engine import Engine, PathCtx

        self.begin_path(PathCtx(Engine(), []))  # module load time: no symbolic values exist

    # ------------------------------------------------------------------ paths
    def begin_path(self, ctx):
        self.ctx = ctx
        ctx.interp = self
        self.body_mode = set()
        self.call_depth = 0
        from .ghost import Ghost

        self.ghost = Ghost(self)
        self.stack = []

    # ------------------------------------------------------------------ modules
    def load_module(self, name):
        w = self.world
        if name in w.modules:
            return w.modules[name]
        stub = self.lib.stub_module(self, name)
        if stub is not None:
            w.modules[name] = stub
            return stub
        found = w.find_source(name)
        if found is None:
            raise OutsideSubset(f"import of unmodelled module {name}")
        path, is_pkg = found
        mod = ModuleV(name)
        w.modules[name] = mod
        mod.ns["__name__"] = name
        if is_pkg and name == "someip":
            # package __init__ only computes __version__ via importlib.metadata: dropped
            return mod
        with open(path) as f:
            src = f.read()
        tree = ast.parse(src, filename=path)
        w.asts[name] = tree
        w.source_files[name] = path
        env = Env(module=mod)
        env.vars = mod.ns
        saved = self.ctx
        for stmt in tree.body:
            self.exec_stmt(stmt, env)
        self.ctx = saved
        return mod

    def import_name(self, dotted):
        """import a.b.c -> loads every prefix, returns top module with attributes bound"""
        parts = dotted.split(".")
        top = None
        parent = None
        for i in range(len(parts)):
            m = self.load_module(".".join(parts[: i + 1]))
            if parent is not None:
                parent.ns[parts[i]] = m
            else:
                top = m
            parent = m
        return top, parent

    # ------------------------------------------------------------------ errors
    def where(self, node):
        mod = None
        if self.stack:
            mod = self.stack[-1]
        return f"{mod or '?'}:{getattr(node, 'lineno', '?')}"

    def exc_class(self, name):
        return self.builtins[name]

    def make_exc(self, clsname_or_cls, *args):
        cls = self.builtins[clsname_or_cls] if isinstance(clsname_or_cls, str) else clsname_or_cls
        return ObjV(cls, {"args": tuple(args)})

    def throw(self, clsname, *args, node=None):
        raise RaiseSig(self.make_exc(clsname, *args), where=self.where(node) if node else "")

    # ------------------------------------------------------------------ statements
    def exec_block(self, stmts, env):
        for s in stmts:
            self.exec_stmt(s, env)

    def exec_stmt(self, node, env):
        self.cur_stmt = node
        m = getattr(self, "s_" + type(node).__name__, None)
        if m is None:
            raise OutsideSubset(f"statement {type(node).__name__} at {self.where(node)}")
        return m(node, env)

    def s_Pass(self, node, env):
        pass

    def s_Expr(self, node, env):
        self.eval(node.value, env)

    def s_Import(self, node, env):
        for a in node.names:
            top, leaf = self.import_name(a.name)
            if a.asname:
                env.assign(a.asname, leaf)
            else:
                env.assign(a.name.split(".")[0], top)

    def s_ImportFrom(self, node, env):
        if node.module == "__future__":
            return
        _, mod = self.import_name(node.module)
        for a in node.names:
            name = a.name
            if name in mod.ns:
                val = mod.ns[name]
            else:
                try:
                    _, val = self.import_name(node.module + "." + name)
                except OutsideSubset:
                    val = self.getattr(mod, name, node)
            env.assign(a.asname or name, val)

    def s_Global(self, node, env):
        if env.declared is None:
            env.declared = {}
        g = env
        while g.parent is not None:
            g = g.parent
        for n in node.names:
            env.declared[n] = g

    def s_Nonlocal(self, node, env):
        if env.declared is None:
            env.declared = {}
        for n in node.names:
            e = env.parent
            while e is not None and (e.is_class or n not in e.vars):
                e = e.parent
            if e is None:
                raise VCError(f"nonlocal {n} not found")
            env.declared[n] = e

    def s_FunctionDef(self, node, env, is_async=False):
        defcls = env.func if env.is_class else None
        qual = self.qualname(env, node.name)
        closure = env.nonclass_parent() if env.is_class else env
        f = FuncV(node, closure, qual, defcls=None, is_async=is_async)  # defcls patched by s_ClassDef
        self.world.funcs_by_qualname[qual] = f
        val = f
        for dec in reversed(node.decorator_list):
            d = self.eval(dec, env)
            val = self.call(d, [val], {}, node)
        env.assign(node.name, val)

    def s_AsyncFunctionDef(self, node, env):
        self.s_FunctionDef(node, env, is_async=True)

    def qualname(self, env, name):
        parts = [name]
        e = env
        while e is not None:
            if e.is_class:
                parts.append(e.func)  # class name stored in .func for class envs
            elif e.func is not None:
                parts.append("<locals>")
                parts.append(e.func.name)
            e = e.parent
        mod = env.module.name if env.module else "?"
        return mod + "." + ".".join(reversed(parts))

    def s_ClassDef(self, node, env):
        bases = [self.eval(b, env) for b in node.bases]
        cenv = Env(parent=env, is_class=True, func=node.name)
        self.stack.append(env.module.name if env.module else "?")
        try:
            # annotations are not evaluated (from __future__ import annotations), but
            # their order and ClassVar-ness define dataclass fields
            annotations = []
            for s in node.body:
                if isinstance(s, ast.AnnAssign) and isinstance(s.target, ast.Name):
                    src = ast.unparse(s.annotation)
                    annotations.append((s.target.id, "ClassVar" in src))
                if isinstance(s, ast.Expr) and isinstance(s.value, ast.Constant) and isinstance(s.value.value, str):
                    continue  # docstring
                self.exec_stmt(s, cenv)
        finally:
            self.stack.pop()
        qual = self.qualname(env, node.name)
        cls = ClassV(node.name, bases, cenv.vars, qualname=qual, module=env.module)
        cls.annotations = annotations
        for v in list(cenv.vars.values()):
            f = v
            if isinstance(f, (ClassMethodV, StaticMethodV)):
                f = f.func
            if isinstance(f, PropertyV):
                f = f.fget
            while isinstance(f, FuncV):
                if f.defcls is None:
                    f.defcls = cls
                f = f.wraps
        # enum
        if any(b.is_enum for b in cls.bases) or any(b.name in ("IntEnum", "Enum") for b in cls.bases):
            cls.is_enum = True
            for k, v in list(cenv.vars.items()):
                if k.startswith("_") or isinstance(v, (FuncV, PropertyV, ClassMethodV, StaticMethodV)):
                    continue
                if isinstance(v, int):
                    ev = EnumV(cls, v)
                    cls.enum_members[k] = ev
                    cenv.vars[k] = ev
        # inherited dataclass-ness (fields are recomputed only by the decorator)
        for b in cls.mro[1:]:
            if b.is_dataclass:
                cls.is_dataclass = True
                cls.frozen = b.frozen
                cls.dc_fields = b.dc_fields
                break
        val = cls
        for dec in reversed(node.decorator_list):
            d = self.eval(dec, env)
            val = self.call(d, [val], {}, node)
        env.assign(node.name, val)

    def s_Return(self, node, env):
        raise ReturnSig(self.eval(node.value, env) if node.value else None)

    def s_Assign(self, node, env):
        v = self.eval(node.value, env)
        for t in node.targets:
            self.assign_target(t, v, env)

    def s_AnnAssign(self, node, env):
        if node.value is not None:
            self.assign_target(node.target, self.eval(node.value, env), env)

    def s_AugAssign(self, node, env):
        t = node.target
        if isinstance(t, ast.Name):
            cur = self.eval(ast.Name(id=t.id, ctx=ast.Load(), lineno=node.lineno, col_offset=0), env)
        elif isinstance(t, ast.Attribute):
            obj = self.eval(t.value, env)
            cur = self.getattr(obj, t.attr, node)
        elif isinstance(t, ast.Subscript):
            obj = self.eval(t.value, env)
            idx = self.eval_index(t.slice, env)
            cur = self.lib.getitem(self, obj, idx, node)
        else:
            raise OutsideSubset("augassign target")
        rhs = self.eval(node.value, env)
        new = self.lib.binop(self, type(node.op).__name__, cur, rhs, node, inplace=True)
        if isinstance(t, ast.Name):
            env.assign(self.mangle(t.id, env), new)
        elif isinstance(t, ast.Attribute):
            self.setattr(obj, t.attr, new, node)
        else:
            self.lib.setitem(self, obj, idx, new, node)

    def assign_target(self, t, v, env):
        if isinstance(t, ast.Name):
            env.assign(self.mangle(t.id, env), v)
        elif isinstance(t, (ast.Tuple, ast.List)):
            items = self.lib.unpack_iterable(self, v, len(t.elts), t)
            for sub, x in zip(t.elts, items):
                self.assign_target(sub, x, env)
        elif isinstance(t, ast.Attribute):
            obj = self.eval(t.value, env)
            self.setattr(obj, self.mangle(t.attr, env), v, t)
        elif isinstance(t, ast.Subscript):
            obj = self.eval(t.value, env)
            idx = self.eval_index(t.slice, env)
            self.lib.setitem(self, obj, idx, v, t)
        else:
            raise OutsideSubset(f"assignment target {type(t).__name__}")

    def s_Delete(self, node, env):
        for t in node.targets:
            if isinstance(t, ast.Subscript):
                obj = self.eval(t.value, env)
                idx = self.eval_index(t.slice, env)
                self.lib.delitem(self, obj, idx, t)
            elif isinstance(t, ast.Name):
                env.vars.pop(t.id, None)
            else:
                raise OutsideSubset("del target")

    def s_If(self, node, env):
        if self.truthy(self.eval(node.test, env), node):
            self.exec_block(node.body, env)
        else:
            self.exec_block(node.orelse, env)

    def s_Assert(self, node, env):
        if not self.truthy(self.eval(node.test, env), node):
            msg = self.eval(node.msg, env) if node.msg else None
            self.throw("AssertionError", msg, node=node)

    def s_While(self, node, env):
        spec = self.loop_spec(node, env)
        if spec is not None:
            return self.lib.cut_loop(self, node, env, spec)
        n = 0
        while True:
            if not self.truthy(self.eval(node.test, env), node):
                self.exec_block(node.orelse, env)
                return
            n += 1
            if n > self.max_unroll:
                raise OutsideSubset(f"loop at {self.where(node)} unrolled {n} times without a loop contract")
            try:
                self.exec_block(node.body, env)
            except BreakSig:
                return
            except ContinueSig:
                continue

    max_unroll = 400

    def loop_spec(self, node, env, it=None):
        """a loop contract applies while its function is the one under verification
        (entered through vc.body); elsewhere the loop just runs.  A `for` over a container of
        concrete shape always just runs (exactly), contract or not."""
        specs = self.world.loopspecs
        if not specs:
            return None
        spec = specs.get(id(node))
        if spec is None:
            return None
        e = env
        while e is not None:
            if e.func is not None and not e.is_class and isinstance(e.func, FuncV) and not e.func.is_lambda:
                if id(e.func) in self.body_mode:
                    if isinstance(node, ast.For) and self._concrete_shape(it):
                        return None
                    return spec
                # not the function under verification: its loop runs normally if it can;
                # a `for` over a sequence of symbolic length cannot, and is cut as well
                if isinstance(node, ast.For) and self._symbolic_value(it):
                    return spec
                return None
            e = e.parent
        return None

    def _concrete_shape(self, it):
        """list / tuple / set / dict (view) whose elements can simply be enumerated"""
        from .values import DictV, ListV, SetV, deref

        it = deref(it)
        if isinstance(it, self.lib.ItemsView):
            it = it.d
        return isinstance(it, (tuple, ListV, SetV, DictV))

    def _symbolic_iterable(self, node, env):
        return self._symbolic_value(self.eval(node.iter, env))

    def _symbolic_value(self, it):
        from .values import LazyDictV, LazySetV, deref

        it = deref(it)
        if isinstance(it, self.lib.ItemsView):
            it = it.d
        if isinstance(it, LazySetV):
            it = it.d
        if isinstance(it, SeqV):
            return not isinstance(it.n, int)
        if isinstance(it, SymListV):
            return True
        if isinstance(it, LazyDictV):
            return it.base_alive
        return False

    def s_For(self, node, env):
        # the iterable is evaluated exactly once, whichever way the loop is run
        it = self.eval(node.iter, env)
        spec = self.loop_spec(node, env, it)
        if spec is not None:
            return self.lib.cut_loop(self, node, env, spec, it)
        broke = False
        for x in self.lib.iterate(self, it, node):
            self.assign_target(node.target, x, env)
            try:
                self.exec_block(node.body, env)
            except BreakSig:
                broke = True
                break
            except ContinueSig:
                continue
        if not broke:
            self.exec_block(node.orelse, env)

    def s_Break(self, node, env):
        raise BreakSig()

    def s_Continue(self, node, env):
        raise ContinueSig()

    def s_Raise(self, node, env):
        if node.exc is None:
            cur = env.lookup("$exc") if self._has(env, "$exc") else None
            if cur is None:
                raise OutsideSubset("bare raise outside handler")
            raise RaiseSig(cur, where=self.where(node))
        e = self.eval(node.exc, env)
        if isinstance(e, ClassV):
            e = self.call(e, [], {}, node)
        if node.cause is not None:
            cause = self.eval(node.cause, env)
            if isinstance(e, ObjV):
                e.fields["__cause__"] = cause
        if not isinstance(e, ObjV):
            raise OutsideSubset(f"raise of non-exception {e!r}")
        raise RaiseSig(e, where=self.where(node))

    def _has(self, env, name):
        try:
            env.lookup(name)
            return True
        except KeyError:
            return False

    def s_Try(self, node, env):
        pending = None  # signal to re-raise after finally
        try:
            try:
                self.exec_block(node.body, env)
            except RaiseSig as r:
                handled = False
                for h in node.handlers:
                    if h.type is None:
                        match = True
                    else:
                        t = self.eval(h.type, env)
                        match = self.exc_matches(r.exc, t)
                    if match:
                        handled = True
                        if h.name:
                            env.assign(h.name, r.exc)
                        saved = env.vars.get("$exc")
                        env.vars["$exc"] = r.exc
                        try:
                            self.exec_block(h.body, env)
                        finally:
                            if saved is None:
                                env.vars.pop("$exc", None)
                            else:
                                env.vars["$exc"] = saved
                        break
                if not handled:
                    raise
            else:
                self.exec_block(node.orelse, env)
        except (PathAbort, VCError, CutSig):
            raise
        except (RaiseSig, ReturnSig, BreakSig, ContinueSig) as sig:
            pending = sig
        if node.finalbody:
            self.exec_block(node.finalbody, env)  # a signal from here overrides `pending`
        if pending is not None:
            raise pending

    def exc_matches(self, exc, t):
        if isinstance(t, tuple):
            return any(self.exc_matches(exc, x) for x in t)
        if isinstance(t, ClassV):
            return exc.cls.issubclass(t)
        raise OutsideSubset(f"except clause with {t!r}")

    def s_With(self, node, env):
        # only context managers with trivial enter/exit are modelled (threading.Lock)
        mgrs = []
        for item in node.items:
            m = self.eval(item.context_expr, env)
            mgrs.append(m)
            entered = self.lib.ctx_enter(self, m, node)
            if item.optional_vars is not None:
                self.assign_target(item.optional_vars, entered, env)
        try:
            self.exec_block(node.body, env)
        except (PathAbort, VCError):
            raise
        except BaseException:
            for m in reversed(mgrs):
                self.lib.ctx_exit(self, m, node)
            raise
        else:
            for m in reversed(mgrs):
                self.lib.ctx_exit(self, m, node)

    # ------------------------------------------------------------------ expressions
    def eval(self, node, env):
        m = getattr(self, "e_" + type(node).__name__, None)
        if m is None:
            raise OutsideSubset(f"expression {type(node).__name__} at {self.where(node)}")
        return m(node, env)

    def e_Constant(self, node, env):
        v = node.value
        if isinstance(v, bytes):
            return SBytes.from_concrete(v)
        if v is Ellipsis:
            return None
        return v

    def mangle(self, name, env):
        if name.startswith("__") and not name.endswith("__"):
            # lexically enclosing class
            e = env
            while e is not None:
                if e.is_class:
                    return f"_{e.func.lstrip('_')}{name}"
                if e.func is not None and getattr(e.func, "defcls", None) is not None:
                    return f"_{e.func.defcls.name.lstrip('_')}{name}"
                e = e.parent
        return name

    def e_Name(self, node, env):
        name = self.mangle(node.id, env)
        try:
            v = env.lookup(name)
            if type(v).__name__ == "Poison":
                raise OutsideSubset(f"{v!r} is read at {self.where(node)}: the loop contract must describe it (havoc + invariant)")
            return v
        except KeyError:
            pass
        if name in self.builtins:
            return self.builtins[name]
        self.throw("NameError", name, node=node)

    def e_Attribute(self, node, env):
        obj = self.eval(node.value, env)
        return self.getattr(obj, self.mangle(node.attr, env), node)

    def e_Tuple(self, node, env):
        return tuple(self.eval_elts(node.elts, env))

    def e_List(self, node, env):
        return ListV(self.eval_elts(node.elts, env))

    def e_Set(self, node, env):
        s = SetV()
        for x in self.eval_elts(node.elts, env):
            self.lib.set_add(self, s, x)
        return s

    def eval_elts(self, elts, env):
        out = []
        for e in elts:
            if isinstance(e, ast.Starred):
                out.extend(self.lib.iterate(self, self.eval(e.value, env), e))
            else:
                out.append(self.eval(e, env))
        return out

    def e_Dict(self, node, env):
        d = DictV()
        for k, v in zip(node.keys, node.values):
            if k is None:
                raise OutsideSubset("dict unpacking")
            self.lib.setitem(self, d, self.eval(k, env), self.eval(v, env), node)
        return d

    _SIMPLE = (ast.Compare, ast.BoolOp, ast.BinOp, ast.Name, ast.Constant, ast.Attribute, ast.Subscript, ast.Tuple)

    def _simple_bool(self, n):
        """syntactic forms that are evaluated without side effects: a boolean operator over
        them may be turned into one formula instead of forking per operand"""
        if isinstance(n, ast.UnaryOp):
            return isinstance(n.op, ast.Not) and self._simple_bool(n.operand)
        if not isinstance(n, self._SIMPLE):
            return False
        return all(self._simple_bool(c) for c in ast.iter_child_nodes(n) if isinstance(c, ast.expr))

    def _boolop_formula(self, node, env):
        """and/or over side-effect-free boolean operands as one z3 formula (no fork); None if
        an operand is not boolean, would fork, or raises (then the faithful operand-by-
        operand evaluation is used)"""
        from .engine import WouldFork
        from .values import mk_bool

        ctx = self.ctx
        outer = ctx.no_fork  # nested boolean operators are speculated as part of the outer one
        if outer and os.environ.get("PYVC_NO_NESTED_SPEC"):
            return None
        is_and = isinstance(node.op, ast.And)
        terms = []
        ctx.no_fork = True
        n_trace = ctx.n_real
        try:
            for sub in node.values:
                v = self.eval(sub, env)
                if isinstance(v, bool):
                    if v != is_and:  # False in `and` / True in `or` decides the result
                        if not terms:
                            return ("value", v)
                        terms.append(z3.BoolVal(v))
                        break
                    continue
                if not isinstance(v, SBool):
                    return None
                terms.append(v.t)
        except (WouldFork, RaiseSig, OutsideSubset):
            return None
        finally:
            ctx.no_fork = outer
        if ctx.n_real != n_trace:
            return None
        if not terms:
            return ("value", is_and)
        return ("value", mk_bool(z3.And(terms) if is_and else z3.Or(terms)))

    def e_BoolOp(self, node, env):
        if all(self._simple_bool(v) for v in node.values):
            r = self._boolop_formula(node, env)
            if r is not None:
                return r[1]
        is_and = isinstance(node.op, ast.And)
        v = None
        for i, sub in enumerate(node.values):
            v = self.eval(sub, env)
            if i == len(node.values) - 1:
                return v
            t = self.truthy(v, node)
            if is_and and not t:
                return v
            if not is_and and t:
                return v
        return v

    def e_UnaryOp(self, node, env):
        v = self.eval(node.operand, env)
        if isinstance(node.op, ast.Not):
            if isinstance(v, SBool):
                from .values import mk_bool

                return mk_bool(z3.Not(v.t))
            return not self.truthy(v, node)
        return self.lib.unop(self, type(node.op).__name__, v, node)

    def e_BinOp(self, node, env):
        a = self.eval(node.left, env)
        b = self.eval(node.right, env)
        return self.lib.binop(self, type(node.op).__name__, a, b, node)

    def e_Compare(self, node, env):
        left = self.eval(node.left, env)
        result = None
        for op, rn in zip(node.ops, node.comparators):
            right = self.eval(rn, env)
            r = self.lib.compare(self, type(op).__name__, left, right, node)
            if len(node.ops) == 1:
                return r
            # chained comparison: short-circuit semantics
            if not self.truthy(r, node):
                return False
            result = r
            left = right
        return result

    def e_IfExp(self, node, env):
        if self.truthy(self.eval(node.test, env), node):
            return self.eval(node.body, env)
        return self.eval(node.orelse, env)

    def e_Lambda(self, node, env):
        return FuncV(node, env, self.qualname(env, "<lambda>"), is_lambda=True)

    def e_JoinedStr(self, node, env):
        # f-strings only feed logging / exception messages: the embedded expressions are
        # evaluated (an exception inside is seen), the formatted text is not modelled
        parts = []
        concrete = True
        for v in node.values:
            if isinstance(v, ast.Constant):
                parts.append(str(v.value))
            else:
                x = self.eval(v.value, env)
                if v.format_spec is not None:
                    self.eval(v.format_spec, env)
                if isinstance(x, (int, str)) and not isinstance(x, bool) and v.format_spec is None and v.conversion == -1:
                    parts.append(str(x))
                elif isinstance(x, int) and v.format_spec is not None:
                    try:
                        spec = "".join(str(c.value) for c in v.format_spec.values)
                        parts.append(format(x, spec))
                    except Exception:
                        concrete = False
                else:
                    concrete = False
        if concrete:
            return "".join(parts)
        return "<fstring>"

    def e_FormattedValue(self, node, env):
        self.eval(node.value, env)
        return "<fmt>"

    def e_Subscript(self, node, env):
        obj = self.eval(node.value, env)
        idx = self.eval_index(node.slice, env)
        return self.lib.getitem(self, obj, idx, node)

    def eval_index(self, s, env):
        if isinstance(s, ast.Slice):
            lo = self.eval(s.lower, env) if s.lower is not None else None
            hi = self.eval(s.upper, env) if s.upper is not None else None
            st = self.eval(s.step, env) if s.step is not None else None
            if st is not None and st != 1:
                raise OutsideSubset("slice step")
            return slice(lo, hi, None)
        return self.eval(s, env)

    def e_Slice(self, node, env):
        return self.eval_index(node, env)

    def e_Starred(self, node, env):
        raise OutsideSubset("starred expression outside call/display")

    def e_ListComp(self, node, env):
        spec = self.world.loopspecs.get(id(node)) if self.world.loopspecs else None
        if spec is not None and (self._in_body_mode(env) or self._symbolic_iterable(node.generators[0], env)):
            from .loopcut import cut_comprehension

            return cut_comprehension(self, node, env, spec)
        return ListV(self.comp_values(node.elt, node.generators, env))

    def _in_body_mode(self, env):
        e = env
        while e is not None:
            if e.func is not None and not e.is_class and isinstance(e.func, FuncV) and not e.func.is_lambda:
                return id(e.func) in self.body_mode
            e = e.parent
        return False

    def e_SetComp(self, node, env):
        s = SetV()
        for x in self.comp_values(node.elt, node.generators, env):
            self.lib.set_add(self, s, x)
        return s

    def e_GeneratorExp(self, node, env):
        return GenV(node, env)

    def e_DictComp(self, node, env):
        if len(node.generators) == 1 and not node.generators[0].ifs and isinstance(node.generators[0].target, ast.Name):
            it = self.eval(node.generators[0].iter, env)
            if isinstance(it, self.lib.RangeV) and not (isinstance(it.lo, int) and isinstance(it.hi, int)) and it.step == 1:
                from .values import CompDictV

                tname = node.generators[0].target.id

                def mk(expr):
                    def f(i):
                        cenv = Env(parent=env)
                        cenv.vars[tname] = i
                        return self.eval(expr, cenv)

                    return f

                return CompDictV(mk(node.key), mk(node.value), it.lo, it.hi)
            return self._dictcomp_from(node, env, it)
        return self._dictcomp_from(node, env, None)

    def _dictcomp_from(self, node, env, first_iter):
        d = DictV()
        pair = ast.Tuple(elts=[node.key, node.value], ctx=ast.Load())
        ast.copy_location(pair, node)
        for k, v in self.comp_values(pair, node.generators, env):
            self.lib.setitem(self, d, k, v, node)
        return d

    def comp_values(self, elt, generators, env):
        """lazy generator over the values of a comprehension"""
        cenv = Env(parent=env)
        cenv.func = env.func if not env.is_class else None
        yield from self._comp_rec(elt, generators, 0, cenv, env)

    def _comp_rec(self, elt, gens, i, cenv, outer):
        if i == len(gens):
            yield self.eval(elt, cenv)
            return
        g = gens[i]
        it = self.eval(g.iter, outer if i == 0 else cenv)
        for x in self.lib.iterate(self, it, g.iter):
            self.assign_target(g.target, x, cenv)
            if all(self.truthy(self.eval(c, cenv), c) for c in g.ifs):
                yield from self._comp_rec(elt, gens, i + 1, cenv, outer)

    def e_Await(self, node, env):
        v = self.eval(node.value, env)
        return self.lib.await_(self, v, node)

    def e_Call(self, node, env):
        if isinstance(node.func, ast.Name) and node.func.id == "super" and not node.args:
            fn = self._enclosing_func(env)
            return SuperV(fn.defcls, self._first_arg(env))
        f = self.eval(node.func, env)
        args = []
        for a in node.args:
            if isinstance(a, ast.Starred):
                sv = self.eval(a.value, env)
                from .values import deref as _deref

                dv = _deref(sv)
                if isinstance(dv, (SymListV, SeqV)) and isinstance(f, BuiltinFn) and f.name == "asyncio.gather":
                    # gather(*<awaitables, arbitrarily many>): each is awaited exactly once
                    args.append(self.lib.StarSeq(dv))
                    continue
                args.extend(self.lib.iterate(self, sv, a))
            else:
                args.append(self.eval(a, env))
        kwargs = {}
        for k in node.keywords:
            if k.arg is None:
                d = self.eval(k.value, env)
                if isinstance(d, DictV):
                    for kk, vv in d.pairs:
                        kwargs[kk] = vv
                else:
                    raise OutsideSubset("**kwargs of non-dict")
            else:
                kwargs[k.arg] = self.eval(k.value, env)
        # zero-argument super()
        if isinstance(node.func, ast.Name) and node.func.id == "super" and not args:
            fn = self._enclosing_func(env)
            selfv = self._first_arg(env)
            return SuperV(fn.defcls, selfv)
        return self.call(f, args, kwargs, node)

    def _enclosing_func(self, env):
        e = env
        while e is not None:
            if e.func is not None and not e.is_class and isinstance(e.func, FuncV) and not e.func.is_lambda:
                return e.func
            e = e.parent
        raise VCError("super() outside method")

    def _first_arg(self, env):
        e = env
        while e is not None:
            if e.func is not None and not e.is_class and isinstance(e.func, FuncV) and not e.func.is_lambda:
                a = e.func.node.args
                first = (a.posonlyargs + a.args)[0].arg
                return e.vars[first]
            e = e.parent
        raise VCError("super() outside method")

    # ------------------------------------------------------------------ truthiness
    def truthy(self, v, node=None):
        from .values import deref

        if node is not None and hasattr(node, "lineno"):
            self.cur_stmt = node
        v = deref(v)
        if v is None or isinstance(v, (bool, int, float, str)):
            return bool(v)
        if isinstance(v, SBool):
            return self.ctx.decide(v.t)
        if isinstance(v, SInt):
            return self.ctx.decide(v.t != 0)
        if isinstance(v, SReal):
            return self.ctx.decide(v.t != 0)
        if isinstance(v, EnumV):
            return self.truthy(v.value, node)
        if isinstance(v, tuple):
            return len(v) > 0
        if isinstance(v, ListV):
            return len(v.items) > 0
        if isinstance(v, (SetV,)):
            return len(v.items) > 0
        if isinstance(v, DictV):
            return len(v.pairs) > 0
        if isinstance(v, (SBytes, BytearrayV, SStr)):
            n = self.lib.length(self, v)
            if isinstance(n, int):
                return n > 0
            return self.ctx.decide(n.t > 0)
        if isinstance(v, SeqV):
            if isinstance(v.n, int):
                return v.n > 0
            return self.ctx.decide(v.n > 0)
        if isinstance(v, SymListV):
            if v.items:
                return True
            return self.truthy(v.prefix, node)
        if isinstance(v, MapV):
            return self.lib.map_nonempty(self, v)
        from .values import LazyDictV, LazySetV

        if isinstance(v, (LazyDictV, LazySetV)):
            n = self.lib.length(self, v)
            return n > 0 if isinstance(n, int) else self.ctx.decide(n.t > 0)
        if isinstance(v, ObjV):
            f, _ = v.cls.lookup("__bool__")
            if f is not None:
                return self.truthy(self.call(BoundMethod(f, v), [], {}, node), node)
            f, _ = v.cls.lookup("__len__")
            if f is not None:
                return self.truthy(self.call(BoundMethod(f, v), [], {}, node), node)
            return True
        if isinstance(v, Opaque):
            t = v.attrs.get("__truthy__")
            if t is not None:
                return self.truthy(t, node)
            return True
        return True

    # ------------------------------------------------------------------ attributes
    def getattr(self, obj, name, node=None):
        if isinstance(obj, ObjV):
            if name in obj.fields:
                return obj.fields[name]
            v, owner = obj.cls.lookup(name)
            if owner is None:
                if name == "__class__":
                    return obj.cls
                if name == "__dict__":
                    return obj.fields
                r = self.lib.obj_getattr_fallback(self, obj, name, node)
                if r is not NotImplemented:
                    return r
                self.throw("AttributeError", f"{obj.cls.name}.{name}", node=node)
            return self.bind(v, obj, obj.cls, name, node)
        if isinstance(obj, ClassV):
            v, owner = obj.lookup(name)
            if owner is None:
                if name == "__name__":
                    return obj.name
                if name == "__qualname__":
                    return obj.qualname
                if obj.is_enum and name in obj.enum_members:
                    return obj.enum_members[name]
                self.throw("AttributeError", f"type {obj.name}.{name}", node=node)
            if isinstance(v, ClassMethodV):
                return BoundMethod(v.func, obj)
            if isinstance(v, StaticMethodV):
                return v.func
            return v
        if isinstance(obj, ModuleV):
            if name in obj.ns:
                return obj.ns[name]
            if obj.native is not None and hasattr(obj.native, name):
                nv = getattr(obj.native, name)
                if isinstance(nv, (int, str, float, bool)) or nv is None:
                    return int(nv) if isinstance(nv, int) and not isinstance(nv, bool) else nv
            # submodule loaded on demand (import someip.header; someip.header.X)
            try:
                sub = self.load_module(obj.name + "." + name)
                obj.ns[name] = sub
                return sub
            except OutsideSubset:
                pass
            raise OutsideSubset(f"module attribute {obj.name}.{name} at {self.where(node)}")
        if isinstance(obj, SuperV):
            v, owner = obj.self_.cls.lookup(name, after=obj.cls) if isinstance(obj.self_, ObjV) else obj.self_.lookup(name, after=obj.cls)
            if owner is None:
                self.throw("AttributeError", f"super.{name}", node=node)
            if isinstance(obj.self_, ObjV):
                return self.bind(v, obj.self_, obj.self_.cls, name, node)
            return BoundMethod(v.func, obj.self_) if isinstance(v, ClassMethodV) else v
        if isinstance(obj, TypingV):
            return TypingV()
        if isinstance(obj, EnumV):
            if name == "value":
                return obj.value
            if name == "name":
                if isinstance(obj.value, int):
                    for k, m in obj.cls.enum_members.items():
                        if m.value == obj.value:
                            return k
                return "<enum-name>"
            v, owner = obj.cls.lookup(name)
            if owner is not None:
                return self.bind(v, obj, obj.cls, name, node)
        if isinstance(obj, PropertyV) and name in ("fget", "func"):
            return obj.fget
        if isinstance(obj, BoundMethod) and name == "__self__":
            return obj.self_
        if isinstance(obj, FuncV):
            if name == "__qualname__":
                return obj.qualname.split(".", 2)[-1]
            if name == "__name__":
                return obj.name
        r = self.lib.value_getattr(self, obj, name, node)
        if r is not NotImplemented:
            return r
        raise OutsideSubset(f"attribute {name!r} of {type(obj).__name__} at {self.where(node)}")

    def bind(self, v, obj, cls, name, node):
        if isinstance(v, FuncV):
            return BoundMethod(v, obj)
        if isinstance(v, BuiltinFn):
            return BoundMethod(v, obj)
        if isinstance(v, PropertyV):
            r = self.call(v.fget, [obj], {}, node)
            if v.cached and isinstance(obj, ObjV):
                obj.fields[name] = r
            return r
        if isinstance(v, ClassMethodV):
            return BoundMethod(v.func, cls)
        if isinstance(v, StaticMethodV):
            return v.func
        return v

    def setattr(self, obj, name, value, node=None):
        if isinstance(obj, ObjV):
            if obj.cls.is_dataclass and obj.cls.frozen:
                self.throw("FrozenInstanceError", name, node=node)
            obj.fields[name] = value
            return
        if isinstance(obj, ClassV):
            obj.ns[name] = value
            return
        if isinstance(obj, Opaque):
            obj.attrs[name] = value
            return
        raise OutsideSubset(f"setattr on {type(obj).__name__} at {self.where(node)}")

    # ------------------------------------------------------------------ calls
    def call(self, f, args, kwargs, node=None):
        if isinstance(f, BoundMethod):
            return self.call(f.func, [f.self_] + list(args), kwargs, node)
        if isinstance(f, FuncV):
            return self.call_function(f, args, kwargs, node)
        if isinstance(f, BuiltinFn):
            return f.fn(self, args, kwargs, node)
        if isinstance(f, BuiltinMethod):
            return self.lib.call_method(self, f.obj, f.name, args, kwargs, node)
        if isinstance(f, ClassV):
            return self.instantiate(f, args, kwargs, node)
        if isinstance(f, BodyOf):
            return self.call_body(f.target, args, kwargs, node)
        if isinstance(f, TypingV):
            # typing.cast(T, x) is the identity; everything else yields a typing object
            if len(args) == 2:
                return args[1]
            return TypingV()
        r = self.lib.call_value(self, f, args, kwargs, node)
        if r is not NotImplemented:
            return r
        raise OutsideSubset(f"call of {f!r} at {self.where(node)}")

    def call_body(self, target, args, kwargs, node):
        if isinstance(target, BoundMethod):
            args = [target.self_] + list(args)
            target = target.func
        if not isinstance(target, FuncV):
            raise VCError(f"vc.body of {target!r}")
        ids = []
        t = target
        while isinstance(t, FuncV):
            ids.append(id(t))
            t = t.wraps
        added = [i for i in ids if i not in self.body_mode]
        self.body_mode.update(added)
        try:
            r = self.call_function(target, args, kwargs, node, force_body=True)
            if isinstance(r, CoroV):
                r.body_ids = tuple(ids)  # the body runs when the coroutine is awaited
            return r
        finally:
            self.body_mode.difference_update(added)

    def call_function(self, f, args, kwargs, node=None, force_body=False):
        # modular verification: a callee with a contract is replaced by its spec function
        if not force_body and self.use_contracts and not f.is_lambda:
            spec = self.world.contracts.get(f.qualname)
            if spec is not None and spec is not f:
                self.ctx.note("by-contract", f.qualname)
                return self.call_function(spec, args, kwargs, node, force_body=True)
        if f.qualname in self.world.broken_loops:
            raise OutsideSubset(self.world.broken_loops[f.qualname])
        if f.qualname in self.world.abstract and id(f) not in self.body_mode:
            return self.ghost.abstract_call(f, args, kwargs, node)
        if f.is_async:
            return CoroV(f, list(args), dict(kwargs))
        return self.run_function(f, args, kwargs, node)

    def run_function(self, f, args, kwargs, node=None):
        if self.call_depth > 60:
            raise OutsideSubset("call depth > 60 (recursion?)")
        env = Env(parent=f.env, func=f)
        self.bind_args(f, env, args, kwargs, node)
        self.call_depth += 1
        self.stack.append(f.module.name if f.module else "?")
        try:
            if f.is_lambda:
                return self.eval(f.node.body, env)
            try:
                self.exec_block(f.node.body, env)
            except ReturnSig as r:
                return r.value
            return None
        finally:
            self.call_depth -= 1
            self.stack.pop()

    def bind_args(self, f, env, args, kwargs, node):
        a = f.node.args
        params = [p.arg for p in a.posonlyargs + a.args]
        defaults = a.defaults
        kwargs = dict(kwargs)
        nargs = len(args)
        if nargs > len(params) and a.vararg is None:
            self.throw("TypeError", f"{f.qualname} takes {len(params)} positional arguments but {nargs} were given", node=node)
        for i, p in enumerate(params):
            if i < nargs:
                if p in kwargs:
                    self.throw("TypeError", f"{f.qualname} got multiple values for {p}", node=node)
                env.vars[p] = args[i]
            elif p in kwargs:
                env.vars[p] = kwargs.pop(p)
            else:
                di = i - (len(params) - len(defaults))
                if di >= 0:
                    env.vars[p] = self.eval(defaults[di], f.env)
                else:
                    self.throw("TypeError", f"{f.qualname} missing argument {p}", node=node)
        if a.vararg is not None:
            env.vars[a.vararg.arg] = tuple(args[len(params) :])
        for p, d in zip(a.kwonlyargs, a.kw_defaults):
            if p.arg in kwargs:
                env.vars[p.arg] = kwargs.pop(p.arg)
            elif d is not None:
                env.vars[p.arg] = self.eval(d, f.env)
            else:
                self.throw("TypeError", f"{f.qualname} missing keyword argument {p.arg}", node=node)
        if a.kwarg is not None:
            env.vars[a.kwarg.arg] = DictV([[k, v] for k, v in kwargs.items()])
        elif kwargs:
            self.throw("TypeError", f"{f.qualname} got unexpected keyword arguments {sorted(kwargs)}", node=node)

    def instantiate(self, cls, args, kwargs, node=None):
        if cls.is_enum:
            return self.lib.enum_lookup(self, cls, args[0], node)
        special = self.lib.instantiate_special(self, cls, args, kwargs, node)
        if special is not NotImplemented:
            return special
        obj = ObjV(cls)
        init, owner = cls.lookup("__init__")
        if cls.is_dataclass and (owner is None or owner.builtin):
            self.dataclass_init(cls, obj, args, kwargs, node)
            post, _ = cls.lookup("__post_init__")
            if post is not None:
                self.call(BoundMethod(post, obj), [], {}, node)
            return obj
        if init is not None:
            self.call(BoundMethod(init, obj), args, kwargs, node)
        elif args or kwargs:
            if cls.issubclass(self.builtins["BaseException"]):
                obj.fields["args"] = tuple(args)
            else:
                self.throw("TypeError", f"{cls.name}() takes no arguments", node=node)
        if cls.issubclass(self.builtins["BaseException"]) and "args" not in obj.fields:
            obj.fields["args"] = tuple(args)
        return obj

    def dataclass_init(self, cls, obj, args, kwargs, node):
        fields = cls.dc_fields
        kwargs = dict(kwargs)
        if len(args) > len(fields):
            self.throw("TypeError", f"{cls.name}() takes {len(fields)} arguments", node=node)
        for i, fd in enumerate(fields):
            if i < len(args):
                if fd.name in kwargs:
                    self.throw("TypeError", f"{cls.name}() got multiple values for {fd.name}", node=node)
                obj.fields[fd.name] = args[i]
            elif fd.name in kwargs:
                obj.fields[fd.name] = kwargs.pop(fd.name)
            elif fd.default_factory is not None:
                obj.fields[fd.name] = self.call(fd.default_factory, [], {}, node)
            elif fd.has_default:
                obj.fields[fd.name] = fd.default
            else:
                self.throw("TypeError", f"{cls.name}() missing argument {fd.name}", node=node)
        if kwargs:
            self.throw("TypeError", f"{cls.name}() got unexpected keyword arguments {sorted(kwargs)}", node=node)
