"""The event-loop model of DESIGN.md section 3, as plain Python shared by the symbolic
interpreter and the native replays (trusted, stated once):

  * call_soon queues FIFO; a callback runs atomically; what it queues goes to the back
  * call_later(d, f, *a) arms a timer for now + d; it fires at most once, never if cancelled
  * create_task queues the coroutine's first step; Task.cancel() requests cancellation

A harness installs one with vc.install_loop(FakeLoop(now)); asyncio.get_event_loop(),
get_running_loop() and create_task() of the code under verification then reach it.
"""


class Handle:
    def __init__(self, loop, callback, args, when):
        self.loop = loop
        self.callback = callback
        self.args = args
        self.when = when
        self.cancelled_ = False
        self.fired = False

    def cancel(self):
        self.cancelled_ = True

    def cancelled(self):
        return self.cancelled_


class Task:
    def __init__(self, loop, coro):
        self.loop = loop
        self.coro = coro
        self.cancel_requested = False
        self.finished = False

    def cancel(self):
        if self.finished:
            return False
        self.cancel_requested = True
        return True

    def done(self):
        return self.finished

    def cancelled(self):
        return self.finished and self.cancel_requested

    def result(self):
        return None


class FakeLoop:
    def __init__(self, now=0):
        self.now = now
        self.ready = []  # Handle objects in FIFO order (when is None)
        self.timers = []  # Handle objects in creation order
        self.tasks = []

    def time(self):
        return self.now

    def call_soon(self, callback, *args):
        h = Handle(self, callback, args, None)
        self.ready.append(h)
        return h

    def call_later(self, delay, callback, *args):
        h = Handle(self, callback, args, self.now + delay)
        self.timers.append(h)
        return h

    def call_at(self, when, callback, *args):
        h = Handle(self, callback, args, when)
        self.timers.append(h)
        return h

    async def getaddrinfo(self, host, port, family=0, type=0, proto=0, flags=0):
        """numeric host / numeric service lookup (AI_NUMERICHOST | AI_NUMERICSERV): the one
        result is the given host text and port"""
        return [(family, type, proto, "", (host, port))]

    def create_task(self, coro):
        t = Task(self, coro)
        self.tasks.append(t)
        return t

    # ---- harness side -----------------------------------------------------------------
    def pending(self):
        """(callback, args) of the queued call_soon callbacks that are not cancelled"""
        return [(h.callback, h.args) for h in self.ready if not h.cancelled_]

    def run_ready(self):
        """run what is queued now, in order, including what those callbacks queue"""
        n = 0
        while self.ready:
            h = self.ready.pop(0)
            n += 1
            if n > 64:
                raise RuntimeError("run_ready: more than 64 callbacks")
            if not h.cancelled_:
                h.callback(*h.args)
        return n

    def live_timers(self):
        return [h for h in self.timers if not h.cancelled_ and not h.fired]

    def fire(self, h):
        """the timer h reaches its deadline: the loop calls it once unless cancelled"""
        if h.cancelled_ or h.fired:
            return False
        h.fired = True
        self.now = h.when
        h.callback(*h.args)
        return True


class Event:
    """asyncio.Event as far as the library uses it (set / clear / is_set)"""

    def __init__(self):
        self.flag = False

    def set(self):
        self.flag = True

    def clear(self):
        self.flag = False

    def is_set(self):
        return self.flag

    async def wait(self):
        """returns once the flag is set; while waiting other callbacks run (asyncio.sleep(0)
        is the interference point of the sequential coroutine model)"""
        import asyncio

        if not self.flag:
            await asyncio.sleep(0)
            if not self.flag:
                raise RuntimeError("Event.wait(): still not set (the harness must set it during the wait)")
        return True
