"""C17 -- event notifications reach exactly the current subscribers, correctly addressed."""
import ipaddress

import someip.header as H
import someip.sd as SD
import someip.service as S
from contracts import looplib as LL
from contracts import spec_header as SH
from contracts import spec_sd as SS

FUNCTIONS = [
    "someip.service.SimpleEventgroup.subscribe",
    "someip.service.SimpleEventgroup.unsubscribe",
    "someip.service.SimpleEventgroup.notify_once",
    "someip.service.SimpleEventgroup._notify_all",
    "someip.service.SimpleEventgroup._notify_single",
    "someip.service.SimpleEventgroup.cyclic_notify",
    "someip.service.SimpleService.client_subscribed",
    "someip.service.SimpleService.client_unsubscribed",
    "someip.sd._SessionStorage.assign_outgoing",
    "someip.header.AbstractIPOption.addrinfo (inlined)",
    "someip.utils.getfirstaddrinfo (inlined)",
]
ASSUMPTIONS = [
    "coroutines as sequential procedures (vc.drive); asyncio.gather runs each awaitable exactly once; a task created by create_task is observed by driving its coroutine",
    "loop.getaddrinfo for a numeric host/port returns that host text and port (contracts/looplib.py); the textual form of an IP address is in one-to-one correspondence with the address",
    "transport.sendto is a recorder; 'subscribed at that time' = when the round's task runs (the set is read without an intervening await)",
]
BOUNDED = ["an eventgroup with two events and up to two subscribed endpoints (IPv4 and IPv6; addresses, ports, event ids, values, prior session state symbolic)"]
EXPLANATION = "addressing, payloads, per-destination session ids and the subscriber set are symbolic; the number of events and endpoints is bounded in shape (bounded_stand_ins)"


class _Svc(S.SimpleService):
    service_id = 0x1234
    version_major = 1
    version_minor = 0


def gen_endpoint(vc, name):
    if vc.choice(name + ".family", ("inet", "inet6")) == "inet":
        return H.IPv4EndpointOption(address=ipaddress.IPv4Address(vc.bytes_fixed(name + ".address", 4)), l4proto=H.L4Protocols.UDP, port=vc.int(name + ".port", 0, 0xFFFF))
    return H.IPv6EndpointOption(address=ipaddress.IPv6Address(vc.bytes_fixed(name + ".address", 16)), l4proto=H.L4Protocols.UDP, port=vc.int(name + ".port", 0, 0xFFFF))


def addr_of(ep):
    """the destination address addrinfo() yields for an endpoint option"""
    return (str(ep.address), ep.port)


class EWorld:
    def __init__(self, vc, name="e", endpoints=2):
        self.vc = vc
        self.loop = vc.install_loop(LL.FakeLoop(vc.real(name + ".now", 0)))
        self.svc = _Svc(vc.int(name + ".instance_id", 0, 0xFFFF))
        self.svc.service_id = vc.int(name + ".service_id", 0, 0xFFFF)
        self.svc.version_major = vc.int(name + ".version_major", 0, 0xFF)
        self.svc.version_minor = vc.int(name + ".version_minor", 0, 0xFFFFFFFF)
        tr = vc.opaque(name + ".transport", "transport")
        self.sent = vc.stub(tr, "sendto")
        self.svc.transport = tr
        self.group = S.SimpleEventgroup(self.svc, vc.int(name + ".eventgroup_id", 0, 0xFFFF))
        self.svc.register_eventgroup(self.group)
        self.ev1 = vc.int(name + ".event1", 0, 0x7FFF)
        self.ev2 = vc.int(name + ".event2", 0, 0x7FFF)
        vc.assume(self.ev1 != self.ev2)
        self.val1 = vc.bytes(name + ".value1")
        self.val2 = vc.bytes(name + ".value2")
        vc.assume(len(self.val1) + 8 <= 0xFFFFFFFF and len(self.val2) + 8 <= 0xFFFFFFFF)
        self.group.values[self.ev1] = self.val1
        self.group.values[self.ev2] = self.val2
        self.eps = [gen_endpoint(vc, name + ".ep" + str(i)) for i in range(endpoints)]
        if endpoints == 2:
            vc.assume(self.eps[0] != self.eps[1])
        self.subscribed = []
        for i, ep in enumerate(self.eps):
            if vc.bool(name + ".ep" + str(i) + ".subscribed"):
                self.group.subscribed_endpoints.add(ep)
                self.subscribed.append(ep)
        if self.subscribed:
            self.group.has_clients.set()
        # prior per-destination session state (arbitrary, in range)
        self.prior = {}
        for i, ep in enumerate(self.eps):
            if vc.bool(name + ".ep" + str(i) + ".has_session"):
                st = (vc.bool(name + ".ep" + str(i) + ".flag"), vc.int(name + ".ep" + str(i) + ".sid", 1, 0xFFFF))
                self.svc.session_storage.outgoing[addr_of(ep)] = st
                self.prior[i] = st

    def notification(self, event_id, value, session_id):
        return SH.enc_someip(
            H.SOMEIPHeader(
                service_id=self.svc.service_id,
                method_id=0x8000 + event_id,
                client_id=0,
                session_id=session_id,
                interface_version=self.svc.version_major,
                message_type=H.SOMEIPMessageType.NOTIFICATION,
                return_code=H.SOMEIPReturnCode.E_OK,
                protocol_version=1,
                payload=value,
            )
        )

    def expected_datagram(self, i, events):
        """one datagram: the notifications of `events` in order, session ids continuing the
        destination's sequence (1.. skipping 0)"""
        cur = self.prior.get(i, (True, 1))
        buf = b""
        for ev in events:
            value = self.val1 if ev == self.ev1 else self.val2
            buf = buf + self.notification(ev, value, cur[1])
            cur = SS.next_session(cur)
        return buf


def ob_notify_single(vc):
    w = EWorld(vc, endpoints=1)
    order = vc.choice("events", ("both", "swapped", "first", "none"))
    events = {"both": [w.ev1, w.ev2], "swapped": [w.ev2, w.ev1], "first": [w.ev1], "none": []}[order]
    log = []
    vc.drive(vc.body(S.SimpleEventgroup._notify_single)(w.group, w.eps[0], list(events), "test"), log)
    if order == "none":
        vc.cover("no-events")
        vc.check_eq(len(w.sent), 0, "_notify_single.no_events_sends_nothing")
        return
    vc.cover("events")
    vc.check_eq(len(w.sent), 1, "_notify_single.one_datagram")
    if len(w.sent) == 1:
        vc.check_eq(w.sent[0][1], addr_of(w.eps[0]), "_notify_single.addressed_to_the_endpoint")
        vc.check_eq(w.sent[0][0], w.expected_datagram(0, events), "_notify_single.notifications_with_service_event_version_value_and_consecutive_session_ids")


def ob_subscribe_unsubscribe(vc):
    """subscribe: the endpoint joins, and one initial notification per event with the
    current values goes to it (and only it); unsubscribe: it leaves; the 'has clients'
    flag is set exactly while somebody is subscribed"""
    w = EWorld(vc, endpoints=2)
    vc.assume(w.eps[0] not in w.subscribed)
    n_tasks = len(w.loop.tasks)
    vc.body(S.SimpleEventgroup.subscribe)(w.group, w.eps[0])
    vc.check(w.eps[0] in w.group.subscribed_endpoints and w.group.has_clients.is_set(), "subscribe.joins")
    vc.check_eq(len(w.loop.tasks), n_tasks + 1, "subscribe.one_initial_notification_task")
    vc.check_eq(len(w.sent), 0, "subscribe.sends_through_the_task")
    if len(w.loop.tasks) == n_tasks + 1:
        vc.drive(w.loop.tasks[n_tasks].coro, [])
        vc.check_eq(len(w.sent), 1, "subscribe.initial_notification_is_one_datagram")
        if len(w.sent) == 1:
            vc.check_eq(w.sent[0][1], addr_of(w.eps[0]), "subscribe.initial_notification_to_the_new_subscriber_only")
            vc.check_eq(w.sent[0][0], w.expected_datagram(0, [w.ev1, w.ev2]), "subscribe.initial_notification_per_event_with_current_value")
    vc.body(S.SimpleEventgroup.unsubscribe)(w.group, w.eps[0])
    vc.check(w.eps[0] not in w.group.subscribed_endpoints, "unsubscribe.leaves")
    vc.check_eq(w.group.has_clients.is_set(), len(w.subscribed) > 0, "unsubscribe.flag_cleared_iff_nobody_left")
    o = vc.outcome(vc.body(S.SimpleEventgroup.unsubscribe), w.group, w.eps[0])
    vc.check(vc.is_exc(o, KeyError), "unsubscribe.unknown_endpoint_is_an_error")
    vc.check_eq(w.group.has_clients.is_set(), len(w.subscribed) > 0, "unsubscribe.failed_unsubscribe_leaves_the_flag")


def ob_notify_once(vc):
    """an explicit round goes to exactly the endpoints subscribed when it runs, once each;
    nothing when there are none"""
    w = EWorld(vc, endpoints=2)
    n_tasks = len(w.loop.tasks)
    vc.body(S.SimpleEventgroup.notify_once)(w.group, [w.ev1])
    if not w.subscribed:
        vc.cover("nobody")
        vc.check_eq(len(w.loop.tasks), n_tasks, "notify_once.no_subscribers_nothing_scheduled")
        vc.check_eq(len(w.sent), 0, "notify_once.no_subscribers_nothing_sent")
        return
    vc.check_eq(len(w.loop.tasks), n_tasks + 1, "notify_once.one_round_task")
    if len(w.loop.tasks) != n_tasks + 1:
        return
    vc.drive(w.loop.tasks[n_tasks].coro, [])
    vc.check_eq(len(w.sent), len(w.subscribed), "notify_once.one_datagram_per_subscriber")
    for i, ep in enumerate(w.eps):
        got = [d for d in w.sent if d[1] == addr_of(ep)]
        if ep in w.subscribed:
            vc.cover("subscriber")
            vc.check_eq(len(got), 1, "notify_once.each_subscriber_once")
            if len(got) == 1:
                vc.check_eq(got[0][0], w.expected_datagram(i, [w.ev1]), "notify_once.notification_content_and_session_id")
        else:
            vc.check_eq(len(got), 0, "notify_once.non_subscribers_get_nothing")


def _cyc_head(vc, v, entering):
    vc.stash("cyclic.iteration", entering)


LOOPS = {("someip.service.SimpleEventgroup.cyclic_notify", 0): {"head": _cyc_head}}


def ob_cyclic_notify(vc):
    """one arbitrary cyclic round: waits for a subscriber, then exactly one interval, then
    notifies every current subscriber once with all events"""
    w = EWorld(vc, endpoints=2)
    vc.assume(len(w.subscribed) > 0)
    interval = vc.real("interval", 0)
    vc.assume(interval > 0)
    log = []
    vc.arm_cut(S.SimpleEventgroup.cyclic_notify, 0)
    o = vc.outcome(vc.drive, vc.body(S.SimpleEventgroup.cyclic_notify)(w.group, interval), log)
    vc.check(o.kind == "cut", "cyclic_notify.keeps_running")
    vc.check_eq(log, [("sleep", interval)], "cyclic_notify.one_interval_before_the_round")
    vc.check_eq(len(w.sent), len(w.subscribed), "cyclic_notify.one_datagram_per_subscriber")
    for i, ep in enumerate(w.eps):
        got = [d for d in w.sent if d[1] == addr_of(ep)]
        if ep in w.subscribed and len(got) == 1:
            vc.check_eq(got[0][0], w.expected_datagram(i, [w.ev1, w.ev2]), "cyclic_notify.all_events_with_current_values")


def gen_subscription(vc, w, name):
    shape = vc.choice(name + ".endpoints", ("one", "none", "two"))
    eps = {"one": [w.eps[0]], "none": [], "two": [w.eps[0], w.eps[1]]}[shape]
    known = vc.bool(name + ".known_eventgroup")
    gid = w.group.id
    if not known:
        gid = vc.int(name + ".other_eventgroup", 0, 0xFFFF)
        vc.assume(gid != w.group.id)
    return SD.EventgroupSubscription(service_id=w.svc.service_id, instance_id=w.svc.instance_id, major_version=w.svc.version_major, id=gid, counter=vc.int(name + ".counter", 0, 15), ttl=vc.int(name + ".ttl", 1, 0xFFFFFF), endpoints=frozenset(eps)), shape, known


def ob_client_subscribed(vc):
    """a subscription naming other than exactly one endpoint, or an unknown eventgroup, is
    refused (NakSubscription) and changes nothing; otherwise the endpoint is subscribed"""
    w = EWorld(vc, endpoints=2)
    vc.assume(w.eps[0] not in w.subscribed)
    sub, shape, known = gen_subscription(vc, w, "sub")
    before = len(w.group.subscribed_endpoints)
    n_tasks = len(w.loop.tasks)
    o = vc.outcome(vc.body(S.SimpleService.client_subscribed), w.svc, sub, vc.opaque("source", "addr"))
    if shape == "one" and known:
        vc.cover("accepted")
        vc.check(o.kind == "ret", "client_subscribed.accepted")
        vc.check(w.eps[0] in w.group.subscribed_endpoints, "client_subscribed.endpoint_subscribed")
        vc.check_eq(len(w.loop.tasks), n_tasks + 1, "client_subscribed.initial_notification_scheduled")
    else:
        vc.cover("refused")
        vc.check(vc.is_exc(o, SD.NakSubscription), "client_subscribed.refused_with_nak")
        vc.check_eq(len(w.group.subscribed_endpoints), before, "client_subscribed.refusal_changes_nothing")
        vc.check_eq(len(w.loop.tasks), n_tasks, "client_subscribed.refusal_schedules_nothing")


def ob_client_unsubscribed(vc):
    w = EWorld(vc, endpoints=2)
    vc.assume(w.eps[0] in w.subscribed)
    sub = SD.EventgroupSubscription(service_id=w.svc.service_id, instance_id=w.svc.instance_id, major_version=w.svc.version_major, id=w.group.id, counter=0, ttl=3, endpoints=frozenset([w.eps[0]]))
    o = vc.outcome(vc.body(S.SimpleService.client_unsubscribed), w.svc, sub, vc.opaque("source", "addr"))
    vc.check(o.kind == "ret", "client_unsubscribed.returns")
    vc.check(w.eps[0] not in w.group.subscribed_endpoints, "client_unsubscribed.endpoint_removed")
    vc.check_eq(w.group.has_clients.is_set(), len(w.subscribed) > 1, "client_unsubscribed.flag_cleared_iff_nobody_left")
    o2 = vc.outcome(vc.body(S.SimpleService.client_unsubscribed), w.svc, sub, vc.opaque("source2", "addr"))
    vc.check(o2.kind == "ret", "client_unsubscribed.unknown_endpoint_is_tolerated")
    vc.check_eq(w.group.has_clients.is_set(), len(w.subscribed) > 1, "client_unsubscribed.repeated_unsubscribe_leaves_the_flag")


HARNESSES = [SH.ob_build_refines, SS.ob_assign_outgoing_refines, ob_notify_single, ob_subscribe_unsubscribe, ob_notify_once, ob_cyclic_notify, ob_client_subscribed, ob_client_unsubscribed]
EXPECT_COVERS = {"ob_notify_single": ["no-events", "events"], "ob_notify_once": ["nobody", "subscriber"], "ob_client_subscribed": ["accepted", "refused"]}
