"""C17 -- event notifications reach exactly the current subscribers, correctly addressed."""
import ipaddress

import someip.header as H
import someip.sd as SD
import someip.service as S
from contracts import looplib as LL
from contracts.common import check_frame
from contracts import spec_header as SH
from contracts import spec_sd as SS

FUNCTIONS = [
    "someip.service.SimpleEventgroup.subscribe",
    "someip.service.SimpleEventgroup.unsubscribe",
    "someip.service.SimpleEventgroup.notify_once",
    "someip.service.SimpleEventgroup._notify_all",
    "someip.service.SimpleEventgroup._notify_single",
    "someip.service.SimpleEventgroup.cyclic_notify",
    "someip.service.SimpleService.client_subscribed",
    "someip.service.SimpleService.client_unsubscribed",
    "someip.sd._SessionStorage.assign_outgoing",
    "someip.header.AbstractIPOption.addrinfo (inlined)",
    "someip.utils.getfirstaddrinfo (inlined)",
]
ASSUMPTIONS = [
    "coroutines as sequential procedures (vc.drive); asyncio.gather runs each awaitable exactly once; a task created by create_task is observed by driving its coroutine",
    "loop.getaddrinfo for a numeric host/port returns that host text and port (contracts/looplib.py); the textual form of an IP address is in one-to-one correspondence with the address",
    "transport.sendto is a recorder; 'subscribed at that time' = when the round's task runs: the round builds all its notifications from the set before its first await (the comprehension contract sees coroutine objects, not awaited calls), and the native twin changes the set while the round is in flight",
]
BOUNDED = []
LEVEL = "proof"
EXPLANATION = "addressing, payloads and per-destination session ids are symbolic; the eventgroup has arbitrarily many events and arbitrarily many subscribed endpoints (lazily materialised dict / set); the notification loop, the per-endpoint fan-out and the cyclic loop are verified by loop / comprehension contracts"


class _Svc(S.SimpleService):
    service_id = 0x1234
    version_major = 1
    version_minor = 0


def gen_endpoint(vc, name):
    if vc.choice(name + ".family", ("inet", "inet6")) == "inet":
        return H.IPv4EndpointOption(address=ipaddress.IPv4Address(vc.bytes_fixed(name + ".address", 4)), l4proto=H.L4Protocols.UDP, port=vc.int(name + ".port", 0, 0xFFFF))
    return H.IPv6EndpointOption(address=ipaddress.IPv6Address(vc.bytes_fixed(name + ".address", 16)), l4proto=H.L4Protocols.UDP, port=vc.int(name + ".port", 0, 0xFFFF))


def addr_of(ep):
    """the destination address addrinfo() yields for an endpoint option"""
    return (str(ep.address), ep.port)


def _gen_event_id(vc, name):
    return vc.int(name, 0, 0x7FFF)


def _gen_value(vc, name, key):
    v = vc.bytes(name)
    vc.assume(len(v) + 8 <= 0xFFFFFFFF)
    return v


def _gen_endpoint_key(vc, name):
    return gen_endpoint(vc, name)


class EWorld:
    """a service endpoint with one eventgroup that has ARBITRARILY MANY events (values:
    lazily materialised dict), ARBITRARILY MANY subscribed endpoints (lazily materialised set)
    and an arbitrary per-destination session table"""

    def __init__(self, vc, name="e"):
        self.vc = vc
        self.loop = vc.install_loop(LL.FakeLoop(vc.real(name + ".now", 0)))
        self.svc = _Svc(vc.int(name + ".instance_id", 0, 0xFFFF))
        self.svc.service_id = vc.int(name + ".service_id", 0, 0xFFFF)
        self.svc.version_major = vc.int(name + ".version_major", 0, 0xFF)
        self.svc.version_minor = vc.int(name + ".version_minor", 0, 0xFFFFFFFF)
        tr = vc.opaque(name + ".transport", "transport")
        self.sent = vc.stub(tr, "sendto")
        self.svc.transport = tr
        self.group = S.SimpleEventgroup(self.svc, vc.int(name + ".eventgroup_id", 0, 0xFFFF))
        self.svc.register_eventgroup(self.group)
        self.group.values = vc.lazy_dict(name + ".values", _gen_value, _gen_event_id)
        self.group.subscribed_endpoints = vc.lazy_set(name + ".subscribed", _gen_endpoint_key)
        # class invariant of SimpleEventgroup: the flag is set exactly while somebody is subscribed
        self.group.has_clients.flag = len(self.group.subscribed_endpoints) > 0
        self.sa, self.sb = SS.gen_storage(vc, name + ".sessions")
        self.svc.session_storage = self.sa

    def notification(self, event_id, value, session_id):
        return SH.enc_someip(
            H.SOMEIPHeader(
                service_id=self.svc.service_id,
                method_id=0x8000 + event_id,
                client_id=0,
                session_id=session_id,
                interface_version=self.svc.version_major,
                message_type=H.SOMEIPMessageType.NOTIFICATION,
                return_code=H.SOMEIPReturnCode.E_OK,
                protocol_version=1,
                payload=value,
            )
        )


def same_events(got, events):
    """the round's events reach the per-endpoint notification as they were requested: the
    same sequence object, or a re-iterable copy with the same contents (not a one-shot
    iterator that the first endpoint would use up)"""
    return got is events or (isinstance(got, (list, tuple)) and list(got) == list(events))


def _gen_bytearray(vc, name):
    return bytearray(vc.bytes(name))


def _ns_init(vc, v):
    vc.stash("ns.init", v)


def _ns_havoc_heap(vc, v):
    """the loop advances the destination's session counter: at an arbitrary iteration it is
    an arbitrary (valid) session, the same in the storage under test and in the reference"""
    w = vc.stashed("ns.world")
    if w is None:
        return
    cur = (vc.bool("ns.session_flag_at_head"), vc.int("ns.session_id_at_head", 1, 0xFFFF))
    w.sa.outgoing[v["addr"]] = cur
    w.sb.outgoing[v["addr"]] = cur


def _ns_modifies(vc, v):
    return [v["self"].service.session_storage.outgoing]


def _ns_head(vc, v, entering):
    vc.stash("ns.entering", entering)
    vc.stash("ns.head", v)


def _ns_post(vc, v):
    vc.stash("ns.post", v)


def _na_head(vc, v, entering):
    vc.stash("na.entering", entering)


def _na_post(vc, v):
    vc.stash("na.post", v)


def _cyc_head(vc, v, entering):
    vc.stash("cyclic.iteration", entering)


LOOPS = {
    ("someip.service.SimpleEventgroup._notify_single", 0): {"havoc": {"msgbuf": _gen_bytearray}, "havoc_heap": _ns_havoc_heap, "modifies": _ns_modifies, "init": _ns_init, "head": _ns_head, "post": _ns_post},
    ("someip.service.SimpleEventgroup._notify_all", "comp", 0): {"head": _na_head, "post": _na_post},
    ("someip.service.SimpleEventgroup.cyclic_notify", 0): {"head": _cyc_head},
}


def _drive_single(vc, w, ep, events):
    """drive _notify_single(ep, events) and state its loop obligations: (init) the datagram
    buffer starts empty; (step) an arbitrary event of the round appends exactly its
    notification -- service id, 0x8000|event id, major version, NOTIFICATION, the event's
    current value -- with the next session id of this destination; (exit) one datagram with
    everything collected goes to the endpoint's address iff there is anything to send"""
    log = []
    vc.stash("ns.world", w)
    heap = vc.snapshot(group=w.group, svc=w.svc)
    o = vc.outcome(vc.drive, vc.body(S.SimpleEventgroup._notify_single)(w.group, ep, events, "test"), log)
    vc.check(o.kind != "raise", "_notify_single.never_raises")
    check_frame(vc, heap, "_notify_single", ("svc.session_storage.outgoing",))
    if vc.native:
        return o
    init = vc.stashed("ns.init")
    if init is None:
        return o
    vc.check_eq(len(init["msgbuf"]), 0, "_notify_single.init.empty_buffer")
    vc.check_eq(init["addr"], addr_of(ep), "_notify_single.destination_is_the_endpoints_address")
    head = vc.stashed("ns.head")
    if vc.stashed("ns.entering"):
        ev = head["event_id"]
        if o.kind == "cut":
            vc.cover("event")
            post = vc.stashed("ns.post")
            cur = w.sb.outgoing.get(addr_of(ep), SS.default_session())
            SS.assign_outgoing(w.sb, addr_of(ep))
            vc.check_eq(post["msgbuf"], head["msgbuf"] + w.notification(ev, w.group.values[ev], cur[1]), "_notify_single.step.appends_the_notification_with_the_destinations_next_session_id")
            vc.check_eq(w.sa.outgoing, w.sb.outgoing, "_notify_single.step.one_session_id_per_notification")
            vc.check_eq(len(w.sent), 0, "_notify_single.step.nothing_sent_before_the_round_is_complete")
    else:
        vc.cover("round-complete")
        buf = head["msgbuf"]
        if len(buf) > 0:
            vc.check_eq(w.sent, [(buf, addr_of(ep))], "_notify_single.exit.one_datagram_with_all_notifications_to_the_endpoint")
        else:
            vc.check_eq(w.sent, [], "_notify_single.exit.nothing_to_send_sends_nothing")
    return o


def ob_notify_single(vc):
    w = EWorld(vc)
    ep = gen_endpoint(vc, "ep")
    events = vc.seq("events", _gen_event_id)
    o = _drive_single(vc, w, ep, events)
    if vc.native:
        exp = b""
        cur = w.sb.outgoing.get(addr_of(ep), SS.default_session())
        ok = True
        for ev in events:
            if ev not in w.group.values:
                ok = False
                break
            exp = exp + w.notification(ev, w.group.values[ev], cur[1])
            cur = SS.next_session(cur)
        if ok:
            vc.check_eq(w.sent, [(exp, addr_of(ep))] if exp else [], "_notify_single.whole_round")


def ob_subscribe_unsubscribe(vc):
    """subscribe: the endpoint joins and the initial notification task notifies it (and only
    it) with all events; unsubscribe: it leaves; the 'has clients' flag is set exactly while
    somebody is subscribed"""
    w = EWorld(vc)
    ep = gen_endpoint(vc, "ep")
    vc.assume(ep not in w.group.subscribed_endpoints)
    n_before = len(w.group.subscribed_endpoints)
    n_tasks = len(w.loop.tasks)
    heap = vc.snapshot(group=w.group, svc=w.svc)
    vc.body(S.SimpleEventgroup.subscribe)(w.group, ep)
    check_frame(vc, heap, "subscribe", ("group.subscribed_endpoints*",))
    vc.check(ep in w.group.subscribed_endpoints and w.group.has_clients.is_set(), "subscribe.joins")
    vc.check_eq(len(w.group.subscribed_endpoints), n_before + 1, "subscribe.others_stay_subscribed")
    vc.check_eq(len(w.loop.tasks), n_tasks + 1, "subscribe.one_initial_notification_task")
    vc.check_eq(len(w.sent), 0, "subscribe.sends_through_the_task")
    if len(w.loop.tasks) == n_tasks + 1 and not vc.native:
        info = vc.coro_info(w.loop.tasks[n_tasks].coro)
        vc.check_eq(info[0], "someip.service.SimpleEventgroup._notify_single", "subscribe.initial_task_notifies_one_endpoint")
        vc.check(info[1][1] is ep or info[2].get("endpoint") is ep, "subscribe.initial_notification_to_the_new_subscriber_only")
    vc.body(S.SimpleEventgroup.unsubscribe)(w.group, ep)
    check_frame(vc, heap, "unsubscribe", ("group.subscribed_endpoints*",))
    vc.check(ep not in w.group.subscribed_endpoints, "unsubscribe.leaves")
    vc.check_eq(len(w.group.subscribed_endpoints), n_before, "unsubscribe.others_stay_subscribed")
    vc.check_eq(w.group.has_clients.is_set(), n_before > 0, "unsubscribe.flag_cleared_iff_nobody_left")
    o = vc.outcome(vc.body(S.SimpleEventgroup.unsubscribe), w.group, ep)
    vc.check(vc.is_exc(o, KeyError), "unsubscribe.unknown_endpoint_is_an_error")
    vc.check_eq(w.group.has_clients.is_set(), n_before > 0, "unsubscribe.failed_unsubscribe_leaves_the_flag")


def ob_initial_notification(vc):
    """the task created by subscribe() notifies all events (the keys of `values` at that
    time): an arbitrary one of them is notified with its current value"""
    w = EWorld(vc)
    ep = gen_endpoint(vc, "ep")
    _drive_single(vc, w, ep, w.group.values.keys())


def ob_notify_once(vc):
    """an explicit round: nothing when nobody is subscribed; otherwise one task that starts
    exactly one _notify_single(endpoint, events) for an arbitrary subscribed endpoint (and so
    for each), with the requested events"""
    w = EWorld(vc)
    events = [vc.int("event", 0, 0x7FFF)]
    n_tasks = len(w.loop.tasks)
    started = []
    if vc.native:

        async def single(endpoint, events=None, label=None):
            started.append((endpoint, list(events)))

        vc.stub(w.group, "_notify_single", single)
    heap = vc.snapshot(group=w.group, svc=w.svc)
    vc.body(S.SimpleEventgroup.notify_once)(w.group, events)
    if not w.group.has_clients.is_set():
        vc.cover("nobody")
        check_frame(vc, heap, "notify_once", ())
        vc.check_eq(len(w.loop.tasks), n_tasks, "notify_once.no_subscribers_nothing_scheduled")
        vc.check_eq(len(w.sent), 0, "notify_once.no_subscribers_nothing_sent")
        return
    vc.check_eq(len(w.loop.tasks), n_tasks + 1, "notify_once.one_round_task")
    if len(w.loop.tasks) != n_tasks + 1:
        return
    if vc.native:
        # a replay runs the round's task: every subscriber gets the requested events
        members = set(w.group.subscribed_endpoints)
        vc.drive(w.loop.tasks[n_tasks].coro, [])
        vc.check_eq(sorted([repr(e) for e, _ in started]), sorted([repr(e) for e in members]), "notify_once.round_task_notifies_all")
        vc.check(all(ev == list(events) for _, ev in started), "notify_once.round_with_the_requested_events")
        return
    info = vc.coro_info(w.loop.tasks[n_tasks].coro)
    vc.check_eq(info[0], "someip.service.SimpleEventgroup._notify_all", "notify_once.round_task_notifies_all")
    vc.check(same_events(info[2].get("events"), events), "notify_once.round_with_the_requested_events")
    check_frame(vc, heap, "notify_once", ())


def ob_notify_all(vc):
    """_notify_all(events): for an arbitrary subscribed endpoint exactly one
    _notify_single(endpoint, events) is started, and all of them are awaited once (gather)"""
    w = EWorld(vc)
    events = [vc.int("event", 0, 0x7FFF)]
    log = []
    if vc.native:
        # a replay runs the whole round on the real code: one notification per subscriber
        started = []
        late = gen_endpoint(vc, "late_subscriber")
        leaves = vc.bool("a_subscriber_leaves_during_the_round")

        async def single(endpoint, events=None, label=None):
            started.append((endpoint, events))
            # while a notification is in flight (address resolution is awaited) the set of
            # subscribers changes: the round still reaches everybody subscribed when it began
            if len(started) == 1:
                if leaves:
                    w.group.subscribed_endpoints.discard(endpoint)
                else:
                    w.group.subscribed_endpoints.add(late)

        vc.stub(w.group, "_notify_single", single)
        members = set(w.group.subscribed_endpoints)
        vc.assume(late not in members)
        vc.drive(w.group._notify_all(events, "test"), log)
        vc.check_eq(sorted([repr(e) for e, _ in started]), sorted([repr(e) for e in members]), "_notify_all.one_notification_per_subscribed_endpoint")
        vc.check(all(same_events(ev, events) for _, ev in started), "_notify_all.with_the_rounds_events")
        return
    heap = vc.snapshot(group=w.group, svc=w.svc)
    o = vc.outcome(vc.drive, vc.body(S.SimpleEventgroup._notify_all)(w.group, events, "test"), log)
    vc.check(o.kind != "raise", "_notify_all.never_raises")
    check_frame(vc, heap, "_notify_all", ())
    if vc.stashed("na.entering"):
        vc.cover("endpoint")
        post = vc.stashed("na.post")
        info = vc.coro_info(post["$elt"])
        vc.check_eq(info[0], "someip.service.SimpleEventgroup._notify_single", "_notify_all.one_notification_per_subscribed_endpoint")
        vc.check(info[1][1] is post["ep"], "_notify_all.addressed_to_that_endpoint")
        vc.check(same_events(info[2].get("events"), events), "_notify_all.with_the_rounds_events")
        vc.check(post["ep"] in w.group.subscribed_endpoints, "_notify_all.only_subscribed_endpoints")
    else:
        vc.cover("round-started")
        vc.check(o.kind == "ret", "_notify_all.returns_after_the_round")


def ob_cyclic_notify(vc):
    """one arbitrary cyclic round: waits for a subscriber, then exactly one interval, then
    starts _notify_all with all events"""
    w = EWorld(vc)
    vc.assume(w.group.has_clients.is_set())
    interval = vc.real("interval", 0)
    vc.assume(interval > 0)
    rounds = vc.stub(w.group, "_notify_all", _fake_round)
    log = []
    vc.arm_cut(S.SimpleEventgroup.cyclic_notify, 0)
    heap = vc.snapshot(group=w.group, svc=w.svc)
    o = vc.outcome(vc.drive, vc.body(S.SimpleEventgroup.cyclic_notify)(w.group, interval), log)
    check_frame(vc, heap, "cyclic_notify", ())
    vc.check(o.kind == "cut", "cyclic_notify.keeps_running")
    vc.check_eq(log, [("sleep", interval)], "cyclic_notify.one_interval_before_the_round")
    vc.check_eq(len(rounds), 1, "cyclic_notify.one_round_per_interval")


async def _fake_round(events=None, label=None):
    return None


def gen_subscription(vc, w, name):
    shape = vc.choice(name + ".endpoints", ("one", "none", "two"))
    w.eps = [gen_endpoint(vc, name + ".ep0"), gen_endpoint(vc, name + ".ep1")]
    vc.assume(w.eps[0] != w.eps[1])
    eps = {"one": [w.eps[0]], "none": [], "two": [w.eps[0], w.eps[1]]}[shape]
    known = vc.bool(name + ".known_eventgroup")
    gid = w.group.id
    if not known:
        gid = vc.int(name + ".other_eventgroup", 0, 0xFFFF)
        vc.assume(gid != w.group.id)
    return SD.EventgroupSubscription(service_id=w.svc.service_id, instance_id=w.svc.instance_id, major_version=w.svc.version_major, id=gid, counter=vc.int(name + ".counter", 0, 15), ttl=vc.int(name + ".ttl", 1, 0xFFFFFF), endpoints=frozenset(eps)), shape, known


def ob_client_subscribed(vc):
    """a subscription naming other than exactly one endpoint, or an unknown eventgroup, is
    refused (NakSubscription) and changes nothing; otherwise the endpoint is subscribed"""
    w = EWorld(vc)
    sub, shape, known = gen_subscription(vc, w, "sub")
    vc.assume(w.eps[0] not in w.group.subscribed_endpoints)
    before = len(w.group.subscribed_endpoints)
    n_tasks = len(w.loop.tasks)
    heap = vc.snapshot(group=w.group, svc=w.svc)
    o = vc.outcome(vc.body(S.SimpleService.client_subscribed), w.svc, sub, vc.opaque("source", "addr"))
    check_frame(vc, heap, "client_subscribed", ("group.subscribed_endpoints*",))
    if shape == "one" and known:
        vc.cover("accepted")
        vc.check(o.kind == "ret", "client_subscribed.accepted")
        vc.check(w.eps[0] in w.group.subscribed_endpoints, "client_subscribed.endpoint_subscribed")
        vc.check_eq(len(w.loop.tasks), n_tasks + 1, "client_subscribed.initial_notification_scheduled")
    else:
        vc.cover("refused")
        vc.check(vc.is_exc(o, SD.NakSubscription), "client_subscribed.refused_with_nak")
        vc.check_eq(len(w.group.subscribed_endpoints), before, "client_subscribed.refusal_changes_nothing")
        vc.check_eq(len(w.loop.tasks), n_tasks, "client_subscribed.refusal_schedules_nothing")


def ob_client_unsubscribed(vc):
    w = EWorld(vc)
    w.eps = [gen_endpoint(vc, "ep0")]
    if vc.native:
        # a generated endpoint is hardly ever a member by chance: make it one
        w.group.subscribed_endpoints.add(w.eps[0])
        w.group.has_clients.set()
    vc.assume(w.eps[0] in w.group.subscribed_endpoints)
    n_before = len(w.group.subscribed_endpoints)
    sub = SD.EventgroupSubscription(service_id=w.svc.service_id, instance_id=w.svc.instance_id, major_version=w.svc.version_major, id=w.group.id, counter=0, ttl=3, endpoints=frozenset([w.eps[0]]))
    heap = vc.snapshot(group=w.group, svc=w.svc)
    o = vc.outcome(vc.body(S.SimpleService.client_unsubscribed), w.svc, sub, vc.opaque("source", "addr"))
    check_frame(vc, heap, "client_unsubscribed", ("group.subscribed_endpoints*",))
    vc.check(o.kind == "ret", "client_unsubscribed.returns")
    vc.check(w.eps[0] not in w.group.subscribed_endpoints, "client_unsubscribed.endpoint_removed")
    vc.check_eq(w.group.has_clients.is_set(), n_before > 1, "client_unsubscribed.flag_cleared_iff_nobody_left")
    o2 = vc.outcome(vc.body(S.SimpleService.client_unsubscribed), w.svc, sub, vc.opaque("source2", "addr"))
    vc.check(o2.kind == "ret", "client_unsubscribed.unknown_endpoint_is_tolerated")
    vc.check_eq(w.group.has_clients.is_set(), n_before > 1, "client_unsubscribed.repeated_unsubscribe_leaves_the_flag")


HARNESSES = [SH.ob_build_refines, SS.ob_assign_outgoing_refines, ob_notify_single, ob_initial_notification, ob_subscribe_unsubscribe, ob_notify_once, ob_notify_all, ob_cyclic_notify, ob_client_subscribed, ob_client_unsubscribed]
EXPECT_COVERS = {"ob_notify_single": ["event", "round-complete"], "ob_notify_once": ["nobody"], "ob_notify_all": ["endpoint", "round-started"], "ob_client_subscribed": ["accepted", "refused"]}
