"""C02 -- SD messages round-trip: every entry keeps exactly its own options."""
import someip.header as H
from contracts import spec_header as SH
from contracts import spec_sdcodec as SC

FUNCTIONS = sorted(SC.CONTRACTS.keys())

ASSUMPTIONS = []

HARNESSES = SC.ENTRY_REFINES + SC.ENTRY_LEMMAS + SC.OPTION_REFINES + SC.OPTION_LEMMAS + SC.CONFIG_OBLIGATIONS + SC.SD_OBLIGATIONS + SC.FIND_OBLIGATIONS + SC.GLUE_OBLIGATIONS

EXPECT_COVERS = {"ob_entry_roundtrip": ["parsed"], "ob_entry_never_decodes_to_something_else": ["emitted"], "ob_entry_canonical": ["decoded"]}
