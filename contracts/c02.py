"""C02 -- SD messages round-trip: every entry keeps exactly its own options."""
import someip.header as H
from contracts import spec_header as SH
from contracts import spec_sd as SS
from contracts import spec_sdcodec as SC

FUNCTIONS = sorted(SC.CONTRACTS.keys()) + ["someip.header.SOMEIPSDEntry.assign_option_index", "someip.header.SOMEIPSDHeader.assign_option_indexes", "someip.sd.ServiceDiscoveryProtocol.send_sd"]

ASSUMPTIONS = [
    "options are arbitrary values compared by equality (opaque) where only sharing matters; each option class has its own codec obligations with symbolic fields",
    "loops of the real code are verified by loop contracts: (init) the state that reaches the loop, (step) one arbitrary iteration refines the element contract, (exit) the result; composing them over the number of elements is the induction rule (trusted), not a solver step",
    "b''.join over a sequence of symbolic length is an uninterpreted function of (sequence, element encoder)",
    "_find's completeness (sharing is found whenever possible) is not claimed; only soundness, index safety and termination are proved, which is what the round trip needs",
    "configuration strings: keys non-empty ASCII without '=', each string at most 255 bytes (as in the property's quantifier)",
]

BOUNDED = []
LEVEL = "proof"

EXPLANATION = (
    "element codecs (entry, every option class, configuration strings), the SD header split/flags, the parse/build loops (loop contracts), "
    "_find soundness/termination, the assign-then-resolve step, assign_option_indexes / resolve_options over arbitrarily many entries "
    "(comprehension contracts) and send_sd over arbitrarily many entries are discharged for all values and all lengths"
)

HARNESSES = (
    SC.ENTRY_REFINES
    + SC.ENTRY_LEMMAS
    + SC.OPTION_REFINES
    + SC.OPTION_LEMMAS
    + SC.CONFIG_OBLIGATIONS
    + SC.SD_OBLIGATIONS
    + SC.FIND_OBLIGATIONS
    + SC.GLUE_OBLIGATIONS
    + SS.SEND_SD_OBLIGATIONS
)

EXPECT_COVERS = {
    "ob_entry_roundtrip": ["parsed"],
    "ob_entry_never_decodes_to_something_else": ["emitted"],
    "ob_entry_canonical": ["decoded"],
    "ob_option_roundtrip": ["parsed"],
    "ob_config_item_roundtrip": ["encoded"],
    "ob_find_sound": ["found", "not-found"],
    "ob_assign_option_post": ["empty-run", "run"],
    "ob_send_sd_refines": ["sent", "empty"],
}
