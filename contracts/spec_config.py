"""Contracts (executable spec functions) for someip.config.

Each spec function states what the real function must compute, written from the property
statements (C19: "compares service ids exactly, and instance id, major and minor version
exactly unless the side that may carry a wildcard does"), not from config.py.  The real
body is proved to refine it for all inputs; callers are then verified against the spec.
"""
import someip.config as C
import someip.header as H

W_INSTANCE = 0xFFFF
W_MAJOR = 0xFF
W_MINOR = 0xFFFFFFFF


def wc(filter_value, value, wildcard):
    """wildcard match: the filter side may carry the wildcard"""
    return filter_value == wildcard or filter_value == value


def wc2(a, b, wildcard):
    """either side may carry the wildcard"""
    return a == wildcard or b == wildcard or a == b


def matches_offer(self, entry):
    if entry.sd_type != H.SOMEIPSDEntryType.OfferService:
        raise ValueError("entry is no OfferService")
    return (
        self.service_id == entry.service_id
        and (self.instance_id == W_INSTANCE or self.instance_id == entry.instance_id)
        and (self.major_version == W_MAJOR or self.major_version == entry.major_version)
        and (self.minor_version == W_MINOR or self.minor_version == entry.minver_or_counter)
    )


def matches_find(self, entry):
    if entry.sd_type != H.SOMEIPSDEntryType.FindService:
        raise ValueError("entry is no FindService")
    return (
        self.service_id == entry.service_id
        and (entry.instance_id == W_INSTANCE or entry.instance_id == self.instance_id)
        and (entry.major_version == W_MAJOR or entry.major_version == self.major_version)
        and (entry.minver_or_counter == W_MINOR or entry.minver_or_counter == self.minor_version)
    )


def matches_subscribe(self, entry):
    if entry.sd_type != H.SOMEIPSDEntryType.Subscribe:
        raise ValueError("entry is no Subscribe")
    return (
        self.service_id == entry.service_id
        and (self.instance_id == W_INSTANCE or self.instance_id == entry.instance_id)
        and (self.major_version == W_MAJOR or self.major_version == entry.major_version)
        and (entry.minver_or_counter & 0xFFFF) in self.eventgroups
    )


def matches_service(self, other):
    return (
        self.service_id == other.service_id
        and (self.instance_id == W_INSTANCE or other.instance_id == W_INSTANCE or self.instance_id == other.instance_id)
        and (self.major_version == W_MAJOR or other.major_version == W_MAJOR or self.major_version == other.major_version)
        and (self.minor_version == W_MINOR or other.minor_version == W_MINOR or self.minor_version == other.minor_version)
    )


def create_find_entry(self, ttl=3):
    return H.SOMEIPSDEntry(
        sd_type=H.SOMEIPSDEntryType.FindService,
        service_id=self.service_id,
        instance_id=self.instance_id,
        major_version=self.major_version,
        ttl=ttl,
        minver_or_counter=self.minor_version,
    )


def create_offer_entry(self, ttl=3):
    return H.SOMEIPSDEntry(
        sd_type=H.SOMEIPSDEntryType.OfferService,
        service_id=self.service_id,
        instance_id=self.instance_id,
        major_version=self.major_version,
        ttl=ttl,
        minver_or_counter=self.minor_version,
        options_1=tuple(self.options_1),
        options_2=tuple(self.options_2),
    )


def from_offer_entry(cls, entry):
    if entry.sd_type != H.SOMEIPSDEntryType.OfferService:
        raise ValueError("entry is no OfferService")
    if not (entry.option_index_1 is None or entry.option_index_2 is None or entry.num_options_1 is None or entry.num_options_2 is None):
        raise ValueError("entry must have resolved options")
    return C.Service(
        entry.service_id,
        entry.instance_id,
        entry.major_version,
        entry.minver_or_counter,
        options_1=tuple(entry.options_1),
        options_2=tuple(entry.options_2),
    )


def as_service(self):
    return C.Service(service_id=self.service_id, instance_id=self.instance_id, major_version=self.major_version)


def for_service(self, service):
    accepts = (
        self.service_id == service.service_id
        and (self.instance_id == W_INSTANCE or self.instance_id == service.instance_id)
        and (self.major_version == W_MAJOR or self.major_version == service.major_version)
    )
    if not accepts:
        return None
    return C.Eventgroup(
        service_id=self.service_id,
        instance_id=service.instance_id,
        major_version=service.major_version,
        eventgroup_id=self.eventgroup_id,
        sockname=self.sockname,
        protocol=self.protocol,
    )


CONTRACTS = {
    "someip.config.Service.matches_offer": matches_offer,
    "someip.config.Service.matches_find": matches_find,
    "someip.config.Service.matches_subscribe": matches_subscribe,
    "someip.config.Service.matches_service": matches_service,
    "someip.config.Service.create_find_entry": create_find_entry,
    "someip.config.Service.create_offer_entry": create_offer_entry,
    "someip.config.Service.from_offer_entry": from_offer_entry,
    "someip.config.Eventgroup.as_service": as_service,
    "someip.config.Eventgroup.for_service": for_service,
}


# ---------------------------------------------------------------------------- generators


def gen_service(vc, name, with_options=True):
    return C.Service(
        service_id=vc.int(name + ".service_id", 0, 0xFFFF),
        instance_id=vc.int(name + ".instance_id", 0, 0xFFFF),
        major_version=vc.int(name + ".major_version", 0, 0xFF),
        minor_version=vc.int(name + ".minor_version", 0, 0xFFFFFFFF),
        options_1=vc.opaque_seq(name + ".options_1", "option") if with_options else (),
        options_2=vc.opaque_seq(name + ".options_2", "option") if with_options else (),
    )


ENTRY_TYPES = (
    H.SOMEIPSDEntryType.FindService,
    H.SOMEIPSDEntryType.OfferService,
    H.SOMEIPSDEntryType.Subscribe,
    H.SOMEIPSDEntryType.SubscribeAck,
)


def gen_entry(vc, name, sd_type=None, resolved=None):
    """arbitrary SD entry; resolved=None splits on resolved / unresolved options"""
    if sd_type is None:
        sd_type = vc.choice(name + ".sd_type", ENTRY_TYPES)
    if resolved is None:
        resolved = vc.choice(name + ".resolved", (True, False))
    if resolved:
        return H.SOMEIPSDEntry(
            sd_type=sd_type,
            service_id=vc.int(name + ".service_id", 0, 0xFFFF),
            instance_id=vc.int(name + ".instance_id", 0, 0xFFFF),
            major_version=vc.int(name + ".major_version", 0, 0xFF),
            ttl=vc.int(name + ".ttl", 0, 0xFFFFFF),
            minver_or_counter=vc.int(name + ".minver_or_counter", 0, 0xFFFFFFFF),
            options_1=vc.opaque_seq(name + ".options_1", "option"),
            options_2=vc.opaque_seq(name + ".options_2", "option"),
        )
    return H.SOMEIPSDEntry(
        sd_type=sd_type,
        service_id=vc.int(name + ".service_id", 0, 0xFFFF),
        instance_id=vc.int(name + ".instance_id", 0, 0xFFFF),
        major_version=vc.int(name + ".major_version", 0, 0xFF),
        ttl=vc.int(name + ".ttl", 0, 0xFFFFFF),
        minver_or_counter=vc.int(name + ".minver_or_counter", 0, 0xFFFFFFFF),
        option_index_1=vc.int(name + ".option_index_1", 0, 255),
        option_index_2=vc.int(name + ".option_index_2", 0, 255),
        num_options_1=vc.int(name + ".num_options_1", 0, 15),
        num_options_2=vc.int(name + ".num_options_2", 0, 15),
    )


def gen_eventgroup(vc, name):
    return C.Eventgroup(
        service_id=vc.int(name + ".service_id", 0, 0xFFFF),
        instance_id=vc.int(name + ".instance_id", 0, 0xFFFF),
        major_version=vc.int(name + ".major_version", 0, 0xFF),
        eventgroup_id=vc.int(name + ".eventgroup_id", 0, 0xFFFF),
        sockname=vc.opaque(name + ".sockname", "addr"),
        protocol=vc.choice(name + ".protocol", (H.L4Protocols.TCP, H.L4Protocols.UDP)),
    )


# ---------------------------------------------------------------------------- refinement obligations


def ob_matches_offer_refines(vc):
    s = gen_service(vc, "S", with_options=False)
    e = gen_entry(vc, "E")
    vc.same_outcome(vc.outcome(vc.body(C.Service.matches_offer), s, e), vc.outcome(matches_offer, s, e), "matches_offer.refines")


def ob_matches_find_refines(vc):
    s = gen_service(vc, "S", with_options=False)
    e = gen_entry(vc, "E")
    vc.same_outcome(vc.outcome(vc.body(C.Service.matches_find), s, e), vc.outcome(matches_find, s, e), "matches_find.refines")


def gen_service_with_groups(vc, name, probe):
    return C.Service(
        service_id=vc.int(name + ".service_id", 0, 0xFFFF),
        instance_id=vc.int(name + ".instance_id", 0, 0xFFFF),
        major_version=vc.int(name + ".major_version", 0, 0xFF),
        minor_version=vc.int(name + ".minor_version", 0, 0xFFFFFFFF),
        eventgroups=vc.intset(name + ".eventgroups", probe),
    )


def ob_matches_subscribe_refines(vc):
    e = gen_entry(vc, "E")
    s = gen_service_with_groups(vc, "S", [e.minver_or_counter & 0xFFFF])
    vc.same_outcome(vc.outcome(vc.body(C.Service.matches_subscribe), s, e), vc.outcome(matches_subscribe, s, e), "matches_subscribe.refines")


def ob_matches_service_refines(vc):
    a = gen_service(vc, "A", with_options=False)
    b = gen_service(vc, "B", with_options=False)
    vc.same_outcome(vc.outcome(vc.body(C.Service.matches_service), a, b), vc.outcome(matches_service, a, b), "matches_service.refines")


def _check_entry_options(vc, o1, o2, label):
    if o1.kind == "ret" and o2.kind == "ret":
        vc.check_eq(o1.value.options_1, o2.value.options_1, label + ".options_1")
        vc.check_eq(o1.value.options_2, o2.value.options_2, label + ".options_2")


def ob_create_find_entry_refines(vc):
    s = gen_service(vc, "S")
    ttl = vc.int("ttl", 0, 0xFFFFFF)
    o1 = vc.outcome(vc.body(C.Service.create_find_entry), s, ttl)
    o2 = vc.outcome(create_find_entry, s, ttl)
    vc.same_outcome(o1, o2, "create_find_entry.refines")
    _check_entry_options(vc, o1, o2, "create_find_entry.refines")


def ob_create_offer_entry_refines(vc):
    s = gen_service(vc, "S")
    ttl = vc.int("ttl", 0, 0xFFFFFF)
    o1 = vc.outcome(vc.body(C.Service.create_offer_entry), s, ttl)
    o2 = vc.outcome(create_offer_entry, s, ttl)
    vc.same_outcome(o1, o2, "create_offer_entry.refines")
    _check_entry_options(vc, o1, o2, "create_offer_entry.refines")


def ob_from_offer_entry_refines(vc):
    e = gen_entry(vc, "E")
    o1 = vc.outcome(vc.body(C.Service.from_offer_entry), e)
    o2 = vc.outcome(from_offer_entry, C.Service, e)
    vc.same_outcome(o1, o2, "from_offer_entry.refines")
    _check_entry_options(vc, o1, o2, "from_offer_entry.refines")


def ob_as_service_refines(vc):
    g = gen_eventgroup(vc, "G")
    vc.same_outcome(vc.outcome(vc.body(C.Eventgroup.as_service), g), vc.outcome(as_service, g), "as_service.refines")


def ob_for_service_refines(vc):
    g = gen_eventgroup(vc, "G")
    s = gen_service(vc, "S")
    vc.same_outcome(vc.outcome(vc.body(C.Eventgroup.for_service), g, s), vc.outcome(for_service, g, s), "for_service.refines")


REFINES = [
    ob_matches_offer_refines,
    ob_matches_find_refines,
    ob_matches_subscribe_refines,
    ob_matches_service_refines,
    ob_create_find_entry_refines,
    ob_create_offer_entry_refines,
    ob_from_offer_entry_refines,
    ob_as_service_refines,
    ob_for_service_refines,
]
