"""Contracts for someip.header: SOME/IP message codec (SD codec further below).

The layout is written from the SOME/IP specification (PRS_SOMEIP_00030 ff.): Message ID
(service 16 | method 16), Length 32 (= payload + 8), Request ID (client 16 | session 16),
protocol version 8, interface version 8, message type 8, return code 8, payload; all
big-endian.  Nothing here is derived from header.py's format strings.
"""
import struct

import someip.header as H

MESSAGE_TYPES = (0x00, 0x01, 0x02, 0x40, 0x41, 0x42, 0x80, 0x81, 0xC0, 0xC1)
RETURN_CODES = (0, 1, 2, 3, 4, 5, 6, 7, 8, 9, 10)


def u8(v):
    return struct.pack("!B", v)


def u16(v):
    return struct.pack("!H", v)


def u32(v):
    return struct.pack("!I", v)


def rd16(b, off):
    return struct.unpack("!H", b[off : off + 2])[0]


def rd32(b, off):
    return struct.unpack("!I", b[off : off + 4])[0]


# ---------------------------------------------------------------------------- SOMEIPHeader


def enc_someip(m):
    """wire layout of a SOME/IP message; struct.error if a field exceeds its width"""
    return (
        u16(m.service_id)
        + u16(m.method_id)
        + u32(len(m.payload) + 8)
        + u16(m.client_id)
        + u16(m.session_id)
        + u8(m.protocol_version)
        + u8(m.interface_version)
        + u8(m.message_type.value)
        + u8(m.return_code.value)
        + m.payload
    )


def someip_build(self):
    return enc_someip(self)


def unpack_(fmt, buf):
    if len(buf) < fmt.size:
        raise H.IncompleteReadError("short")
    return fmt.unpack(buf[: fmt.size]), buf[fmt.size :]


def header_fields(parsed):
    """validation of the nine header fields: returns (size, mt, rc) or raises ParseError"""
    sid, mid, size, cid, sessid, pv, iv, mt_b, rc_b = parsed
    if pv != 1:
        raise H.ParseError("protocol version")
    if mt_b not in MESSAGE_TYPES:
        raise H.ParseError("message type")
    if rc_b not in RETURN_CODES:
        raise H.ParseError("return code")
    if size < 8:
        raise H.ParseError("length")
    return size, H.SOMEIPMessageType(mt_b), H.SOMEIPReturnCode(rc_b)


def make_message(parsed, mt, rc, payload):
    sid, mid, size, cid, sessid, pv, iv, mt_b, rc_b = parsed
    return H.SOMEIPHeader(
        service_id=sid,
        method_id=mid,
        client_id=cid,
        session_id=sessid,
        protocol_version=pv,
        interface_version=iv,
        message_type=mt,
        return_code=rc,
        payload=payload,
    )


def parse_header_(cls, parsed):
    size, mt, rc = header_fields(parsed)
    return size, lambda payload_b: make_message(parsed, mt, rc, payload_b)


def read_header(buf):
    """the nine header fields of the first 16 bytes"""
    return (rd16(buf, 0), rd16(buf, 2), rd32(buf, 4), rd16(buf, 8), rd16(buf, 10), buf[12], buf[13], buf[14], buf[15])


def someip_parse(cls, buf):
    if len(buf) < 16:
        raise H.IncompleteReadError("short header")
    parsed = read_header(buf)
    size, mt, rc = header_fields(parsed)
    if len(buf) - 16 < size - 8:
        raise H.IncompleteReadError("short payload")
    return make_message(parsed, mt, rc, buf[16 : 8 + size]), buf[8 + size :]


CONTRACTS = {
    "someip.header._unpack": unpack_,
    "someip.header.SOMEIPHeader._parse_header": parse_header_,
    "someip.header.SOMEIPHeader.parse": someip_parse,
    "someip.header.SOMEIPHeader.build": someip_build,
}

# ---------------------------------------------------------------------------- generators

MT_MEMBERS = (
    H.SOMEIPMessageType.REQUEST,
    H.SOMEIPMessageType.REQUEST_NO_RETURN,
    H.SOMEIPMessageType.NOTIFICATION,
    H.SOMEIPMessageType.REQUEST_ACK,
    H.SOMEIPMessageType.REQUEST_NO_RETURN_ACK,
    H.SOMEIPMessageType.NOTIFICATION_ACK,
    H.SOMEIPMessageType.RESPONSE,
    H.SOMEIPMessageType.ERROR,
    H.SOMEIPMessageType.RESPONSE_ACK,
    H.SOMEIPMessageType.ERROR_ACK,
)


def gen_enum(vc, name, cls, values):
    """arbitrary member of an IntEnum: its value is symbolic over the legal values"""
    v = vc.int(name, 0, 255)
    vc.assume(v in values)
    return cls(v)


def gen_message(vc, name, fits=True):
    """arbitrary SOME/IP message; fits=True restricts the fields to their wire widths"""
    hi16 = 0xFFFF if fits else None
    hi8 = 0xFF if fits else None
    lo = 0 if fits else None
    payload = vc.bytes(name + ".payload")
    if fits:
        vc.assume(len(payload) + 8 <= 0xFFFFFFFF)
    return H.SOMEIPHeader(
        service_id=vc.int(name + ".service_id", lo, hi16),
        method_id=vc.int(name + ".method_id", lo, hi16),
        client_id=vc.int(name + ".client_id", lo, hi16),
        session_id=vc.int(name + ".session_id", lo, hi16),
        interface_version=vc.int(name + ".interface_version", lo, hi8),
        message_type=gen_enum(vc, name + ".message_type", H.SOMEIPMessageType, MESSAGE_TYPES),
        protocol_version=vc.int(name + ".protocol_version", lo, hi8) if not fits else 1,
        return_code=gen_enum(vc, name + ".return_code", H.SOMEIPReturnCode, RETURN_CODES),
        payload=payload,
    )


# ---------------------------------------------------------------------------- refinement obligations

HDR_FMT = struct.Struct("!HHIHHBBBB")


def ob_unpack_refines(vc):
    buf = vc.bytes("buf")
    fmt = vc.choice("fmt", (struct.Struct("!HHIHHBBBB"), struct.Struct("!BBBBHHBBHI"), struct.Struct("!HB")))
    vc.same_outcome(vc.outcome(vc.body(H._unpack), fmt, buf), vc.outcome(unpack_, fmt, buf), "_unpack.refines")


def gen_raw_header(vc, name):
    return (
        vc.int(name + ".sid", 0, 0xFFFF),
        vc.int(name + ".mid", 0, 0xFFFF),
        vc.int(name + ".size", 0, 0xFFFFFFFF),
        vc.int(name + ".cid", 0, 0xFFFF),
        vc.int(name + ".sessid", 0, 0xFFFF),
        vc.int(name + ".pv", 0, 0xFF),
        vc.int(name + ".iv", 0, 0xFF),
        vc.int(name + ".mt", 0, 0xFF),
        vc.int(name + ".rc", 0, 0xFF),
    )


def ob_parse_header_refines(vc):
    parsed = gen_raw_header(vc, "h")
    o1 = vc.outcome(vc.body(H.SOMEIPHeader._parse_header), parsed)
    o2 = vc.outcome(parse_header_, H.SOMEIPHeader, parsed)
    if o1.kind == "ret" and o2.kind == "ret":
        vc.cover("accepted")
        vc.check_eq(o1.value[0], o2.value[0], "_parse_header.refines.size")
        p = vc.bytes("payload")
        vc.check_eq(o1.value[1](p), o2.value[1](p), "_parse_header.refines.builder")
    else:
        vc.same_outcome(o1, o2, "_parse_header.refines")


def ob_parse_refines(vc):
    buf = vc.bytes("buf")
    vc.same_outcome(vc.outcome(vc.body(H.SOMEIPHeader.parse), buf), vc.outcome(someip_parse, H.SOMEIPHeader, buf), "parse.refines")


def ob_build_refines(vc):
    m = gen_message(vc, "m", fits=vc.choice("fits", (True, False)))
    vc.same_outcome(vc.outcome(vc.body(H.SOMEIPHeader.build), m), vc.outcome(someip_build, m), "build.refines")


REFINES = [ob_unpack_refines, ob_parse_header_refines, ob_parse_refines, ob_build_refines]
