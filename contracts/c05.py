"""C05 -- discovery listeners see a truthful, strictly alternating service history."""
import someip.config as C
import someip.header as H
import someip.sd as SD
from contracts import looplib as LL
from contracts import spec_config as SCFG
from contracts import spec_sd as SS
from contracts import spec_store as ST
from contracts.common import gen_addr

FUNCTIONS = [
    "someip.sd.ServiceDiscover.handle_offer",
    "someip.sd.ServiceDiscover.is_watching_service",
    "someip.sd.ServiceDiscover.service_offered",
    "someip.sd.ServiceDiscover.service_offer_stopped",
    "someip.sd.ServiceDiscover.watch_service",
    "someip.sd.ServiceDiscover.stop_watch_service",
    "someip.sd.ServiceDiscover.watch_all_services",
    "someip.sd.ServiceDiscover.stop_watch_all_services",
    "someip.sd.ServiceDiscover.reboot_detected",
    "someip.sd.ServiceDiscover.connection_lost",
    "someip.sd.ServiceDiscover._notify_service_offered",
    "someip.sd.ServiceDiscover._notify_service_stopped",
    "someip.sd.TimedStore.* (spec_store obligations; bodies inlined at the call sites)",
    "someip.sd.ServiceDiscoveryProtocol.message_received (reboot before entries)",
]

ASSUMPTIONS = [
    "event-loop model contracts/looplib.py (trusted); 'once the loop is idle' = after run_ready()",
    "listeners are recorders that do not raise and are registered once",
    "history claims are proved as one inductive step from an arbitrary consistent state (monitor: the listener's last notification for (service, source) is 'offered' iff the entry is in the store) under every single operation; the induction over the history is the (trusted) induction rule",
]

BOUNDED = ST.BOUNDED + ["discovery state: one filter with one listener plus one watch-all listener (each optional); one service/source of interest plus up to two other entries"]

EXPLANATION = "each operation of the discovery part is proved to keep the monitor invariant (alternation, truthfulness) for all ids, wildcards, TTLs, addresses and times; the number of simultaneously stored other entries and of registered listeners is bounded in shape (bounded_stand_ins); one schedule (late registration overtaken by a StopOffer) is a recorded known finding"


class Recorder(SD.ClientServiceListener):
    def __init__(self, name, log):
        self.name = name
        self.log = log

    def service_offered(self, service, source):
        self.log.append((self.name, "offered", service, source))

    def service_stopped(self, service, source):
        self.log.append((self.name, "stopped", service, source))


class DWorld:
    """a discovery part in an arbitrary consistent state"""

    def __init__(self, vc, name="d", register=True):
        self.vc = vc
        self.loop = vc.install_loop(LL.FakeLoop(vc.real(name + ".now", 0)))
        self.prot, self.sent = SS.gen_sd_protocol(vc, name + ".prot")
        self.disc = self.prot.discovery
        self.log = []
        self.L = Recorder("L", self.log)
        self.Lall = Recorder("Lall", self.log)
        self.A = vc.opaque(name + ".A", "addr")
        self.B = vc.opaque(name + ".B", "addr")
        vc.assume(self.A != self.B)
        # the offer of interest and the service it describes
        self.offer = SCFG.gen_entry(vc, name + ".offer", sd_type=H.SOMEIPSDEntryType.OfferService, resolved=True)
        self.S = C.Service.from_offer_entry(self.offer)
        self.S1 = SCFG.gen_service(vc, name + ".S1", with_options=False)
        vc.assume(self.S1.service_id != self.S.service_id)
        # the listener's filter: matching is by contract (C19); three representative filters
        kind = vc.choice(name + ".filter", ("any-instance", "exact", "other-instance"))
        if kind == "any-instance":
            self.F = C.Service(self.S.service_id)
        elif kind == "exact":
            self.F = C.Service(self.S.service_id, self.S.instance_id, self.S.major_version, self.S.minor_version)
        else:
            other = vc.int(name + ".F.instance_id", 0, 0xFFFE)
            vc.assume(other != self.S.instance_id)
            vc.assume(self.S.instance_id != 0xFFFF)
            self.F = C.Service(self.S.service_id, other)
        self.registered = register
        if self.registered:
            self.disc.watched_services[self.F].add(self.L)
        self.all_registered = register and vc.choice(name + ".Lall_registered", (True, False))
        if self.all_registered:
            self.disc.watcher_all_services.add(self.Lall)
        self.slots = {}
        self.populate(name + ".A_S", self.A, self.S, ("absent", "timer", "forever"))
        self.populate(name + ".A_S1", self.A, self.S1, ("absent", "timer"))
        self.populate(name + ".B_S", self.B, self.S, ("absent", "forever"))

    def populate(self, name, addr, key, kinds):
        kind = self.vc.choice(name, kinds)
        if kind == "absent":
            self.slots[(addr, key)] = None
            return
        handle = None
        ts = self.disc.found_services
        if kind == "timer":
            handle = self.loop.call_later(self.vc.real(name + ".remaining", 0), ts._expired, addr, key)
        ts.store[addr][key] = (self.disc._notify_service_stopped, handle)
        self.slots[(addr, key)] = (kind, handle)

    def present(self, addr, key):
        ts = self.disc.found_services
        return addr in ts.store and key in ts.store[addr]

    def events(self, who, service, source):
        return [e[1] for e in self.log if e[0] == who and e[2] == service and e[3] == source]

    def check_step(self, label, before):
        """monitor step for every listener and every tracked (service, source): a listener
        whose filter matches is told 'offered' exactly when the entry appeared, 'stopped'
        exactly when it disappeared, and nothing otherwise (once the loop is idle)"""
        vc = self.vc
        self.loop.run_ready()
        for slot in self.slots:
            addr, key = slot
            was = before[slot]
            now = self.present(addr, key)
            for who, active in (("L", self.registered and self.F.matches_service(key)), ("Lall", self.all_registered)):
                ev = self.events(who, key, addr)
                if not active:
                    vc.check_eq(ev, [], label + ".unconcerned_listener_hears_nothing")
                elif was and not now:
                    vc.check_eq(ev, ["stopped"], label + ".disappearance_reported_stopped_once")
                elif now and not was:
                    vc.check_eq(ev, ["offered"], label + ".appearance_reported_offered_once")
                else:
                    vc.check_eq(ev, [], label + ".no_change_no_notification")

    def snapshot(self):
        return {slot: self.present(slot[0], slot[1]) for slot in self.slots}


def ob_handle_offer(vc):
    """an offer (TTL > 0) for a watched service is recorded with its TTL and reported as
    'offered' iff it was not known; a stop-offer (TTL 0) removes it and is reported iff it
    was known; offers for services nobody watches change nothing"""
    w = DWorld(vc)
    before = w.snapshot()
    watching = w.all_registered or (w.registered and w.F.matches_offer(w.offer))
    w.disc.handle_offer(w.offer, w.A)
    if not watching:
        vc.cover("not-watched")
        vc.check_eq(w.present(w.A, w.S), before[(w.A, w.S)], "handle_offer.unwatched_service_ignored")
    elif w.offer.ttl == 0:
        vc.cover("stop-offer")
        vc.check(not w.present(w.A, w.S), "handle_offer.stop_offer_withdraws")
    else:
        vc.cover("offer")
        vc.check(w.present(w.A, w.S), "handle_offer.offer_recorded")
        if w.present(w.A, w.S):
            h = w.disc.found_services.store[w.A][w.S][1]
            if w.offer.ttl == 0xFFFFFF:
                vc.check(h is None, "handle_offer.infinite_ttl_never_expires")
            else:
                vc.check(h is not None and h.when == w.loop.now + w.offer.ttl and not h.cancelled_, "handle_offer.expires_ttl_after_this_offer")
    vc.check_eq(w.present(w.B, w.S), before[(w.B, w.S)], "handle_offer.same_service_from_other_sources_untouched")
    vc.check_eq(w.present(w.A, w.S1), before[(w.A, w.S1)], "handle_offer.other_services_untouched")
    w.check_step("handle_offer", before)


def ob_expiry(vc):
    """the TTL of a known offer runs out: reported stopped exactly once"""
    w = DWorld(vc)
    st = w.slots[(w.A, w.S)]
    vc.assume(st is not None and st[1] is not None)
    before = w.snapshot()
    w.loop.fire(st[1])
    vc.check(not w.present(w.A, w.S), "expiry.entry_removed")
    w.check_step("expiry", before)


def ob_reboot_detected(vc):
    """a detected reboot of a source withdraws everything learnt from it, and only that"""
    w = DWorld(vc)
    before = w.snapshot()
    w.disc.reboot_detected(w.A)
    vc.check(not w.present(w.A, w.S) and not w.present(w.A, w.S1), "reboot_detected.source_forgotten")
    vc.check_eq(w.present(w.B, w.S), before[(w.B, w.S)], "reboot_detected.other_sources_kept")
    w.check_step("reboot_detected", before)


def ob_connection_lost(vc):
    w = DWorld(vc)
    before = w.snapshot()
    w.disc.connection_lost(None)
    for slot in w.slots:
        vc.check(not w.present(slot[0], slot[1]), "connection_lost.everything_forgotten")
    w.check_step("connection_lost", before)


def ob_reboot_then_offer_same_message(vc):
    """a message that reveals a reboot and carries an offer: what was learnt before is
    reported stopped BEFORE the offer of that message is reported (the reboot is applied by
    message_received before the entries; offers are queued by sd_message_received)"""
    w = DWorld(vc)
    vc.assume(w.F.matches_service(w.S))
    vc.assume(w.offer.ttl != 0)
    w.prot.reboot_detected(w.A)
    sdhdr = H.SOMEIPSDHeader(entries=(w.offer,), flag_unicast=True)
    w.prot.sd_message_received(sdhdr, w.A, vc.bool("multicast"))
    w.loop.run_ready()
    ev = w.events("L", w.S, w.A)
    if w.slots[(w.A, w.S)] is not None:
        vc.cover("known-before")
        vc.check_eq(ev, ["stopped", "offered"], "reboot.reported_stopped_before_the_new_offer")
    else:
        vc.check_eq(ev, ["offered"], "reboot.unknown_service_just_offered")
    vc.check(w.present(w.A, w.S), "reboot.new_offer_is_live")


def ob_watch_service(vc):
    """registering a listener: it is told about every matching live offer (once the loop
    is idle) and from then on takes part in the alternation"""
    w = DWorld(vc, register=False)
    w.disc.watch_service(w.F, w.L)
    w.registered = True
    w.loop.run_ready()
    for slot in w.slots:
        addr, key = slot
        ev = w.events("L", key, addr)
        if w.present(addr, key) and w.F.matches_service(key):
            vc.cover("told")
            vc.check_eq(ev, ["offered"], "watch_service.live_matching_offer_reported")
        else:
            vc.check_eq(ev, [], "watch_service.nothing_else_reported")


def ob_watch_all_services(vc):
    w = DWorld(vc, register=False)
    w.disc.watch_all_services(w.Lall)
    w.loop.run_ready()
    for slot in w.slots:
        addr, key = slot
        ev = w.events("Lall", key, addr)
        if w.present(addr, key):
            vc.check_eq(ev, ["offered"], "watch_all_services.live_offer_reported")
        else:
            vc.check_eq(ev, [], "watch_all_services.nothing_else_reported")


def ob_stop_watch(vc):
    """unregistering: the listener hears nothing of later changes"""
    w = DWorld(vc)
    w.disc.stop_watch_service(w.F, w.L)
    w.loop.run_ready()
    n = len(w.log)
    w.registered = False
    w.disc.reboot_detected(w.A)
    w.loop.run_ready()
    vc.check_eq([e for e in w.log[n:] if e[0] == "L"], [], "stop_watch_service.silent_afterwards")


def ob_late_registration_overtaken(vc):
    """KNOWN FINDING D10 region: a listener registered while an offer is live is told
    'offered' through the event loop; a stop-offer handled before that queued callback
    runs is reported first"""
    w = DWorld(vc, register=False)
    vc.assume(w.slots[(w.A, w.S)] is not None)
    vc.assume(w.F.matches_service(w.S))
    w.disc.watch_service(w.F, w.L)
    w.registered = True
    stop = H.SOMEIPSDEntry(
        sd_type=H.SOMEIPSDEntryType.OfferService,
        service_id=w.offer.service_id,
        instance_id=w.offer.instance_id,
        major_version=w.offer.major_version,
        ttl=0,
        minver_or_counter=w.offer.minver_or_counter,
    )
    w.disc.handle_offer(stop, w.A)
    w.loop.run_ready()
    ev = w.events("L", w.S, w.A)
    live = w.present(w.A, w.S)
    vc.check(not live, "late_registration.stop_offer_withdraws")
    ok = (len(ev) == 0 or ev[len(ev) - 1] == "stopped") and (len(ev) == 0 or ev[0] == "offered")
    vc.check(ok, "late_registration@stop_offer_before_queued_notification.history_alternates_and_is_truthful")


HARNESSES = ST.STORE_OBLIGATIONS + [
    ob_handle_offer,
    ob_expiry,
    ob_reboot_detected,
    ob_connection_lost,
    ob_reboot_then_offer_same_message,
    ob_watch_service,
    ob_watch_all_services,
    ob_stop_watch,
    ob_late_registration_overtaken,
] + SS.MESSAGE_RECEIVED_OBLIGATIONS

EXPECT_COVERS = {"ob_handle_offer": ["not-watched", "stop-offer", "offer"], "ob_reboot_then_offer_same_message": ["known-before"], "ob_watch_service": ["told"]}
