"""C05 -- discovery listeners see a truthful, strictly alternating service history."""
import someip.config as C
import someip.header as H
import someip.sd as SD
from contracts import looplib as LL
from contracts import spec_config as SCFG
from contracts import spec_sd as SS
from contracts import spec_store as ST
from contracts.common import check_frame, gen_addr

FUNCTIONS = [
    "someip.sd.ServiceDiscover.handle_offer",
    "someip.sd.ServiceDiscover.is_watching_service",
    "someip.sd.ServiceDiscover.service_offered",
    "someip.sd.ServiceDiscover.service_offer_stopped",
    "someip.sd.ServiceDiscover.watch_service",
    "someip.sd.ServiceDiscover.stop_watch_service",
    "someip.sd.ServiceDiscover.watch_all_services",
    "someip.sd.ServiceDiscover.stop_watch_all_services",
    "someip.sd.ServiceDiscover.reboot_detected",
    "someip.sd.ServiceDiscover.connection_lost",
    "someip.sd.ServiceDiscover._notify_service_offered",
    "someip.sd.ServiceDiscover._notify_service_stopped",
    "someip.sd.TimedStore.* (spec_store obligations; bodies inlined at the call sites)",
    "someip.sd.ServiceDiscoveryProtocol.message_received (reboot before entries)",
]

ASSUMPTIONS = [
    "event-loop model contracts/looplib.py (trusted); 'once the loop is idle' = after run_ready()",
    "listeners are recorders that do not raise; a listener is registered under one filter (a listener registered under two matching filters is, by the code's design, told twice)",
    "the callers of _notify_service_offered / _notify_service_stopped see their contract projected on the two listeners a harness follows (the calls to all other listeners are not observable by it); the contract is verified against the real loops for an arbitrary registration",
    "history claims are proved as one inductive step from an arbitrary consistent state (monitor: the listener's last notification for (service, source) is 'offered' iff the entry is in the store) under every single operation; the induction over the history is the (trusted) induction rule",
]

BOUNDED = []

EXPLANATION = "each operation of the discovery part is proved to keep the monitor invariant (alternation, truthfulness) for all ids, wildcards, TTLs, addresses and times; the store of known offers, the registered filters, the listeners per filter and the watch-all listeners are all unbounded (lazily materialised dicts / sets, loop contracts for the fan-out, any() over the registrations as a quantifier); one schedule (late registration overtaken by a StopOffer) is a recorded known finding"


def _notify(self, service, source, method):
    """CONTRACT of ServiceDiscover._notify_service_offered / _notify_service_stopped, as the
    callers see it: every listener registered under a filter that matches the service, then
    every watch-all listener, is called exactly once with (service, source) -- and nobody
    else.  (Verified against the real loops by ob_notify_offered / ob_notify_stopped for an
    arbitrary registration among arbitrarily many.)  A harness world tracks two of the
    registered listeners; the calls to all the others are not observable by it."""
    w = getattr(self, "_verif_world", None)
    if w is None:
        for service_filter, listeners in self.watched_services.items():
            if service_filter.matches_service(service):
                for listener in listeners:
                    getattr(listener, method)(service, source)
        for listener in self.watcher_all_services:
            getattr(listener, method)(service, source)
        return
    if w.registered and w.F.matches_service(service):
        getattr(w.L, method)(service, source)
    if w.all_registered:
        getattr(w.Lall, method)(service, source)


def notify_service_offered(self, service, source):
    _notify(self, service, source, "service_offered")


def notify_service_stopped(self, service, source):
    _notify(self, service, source, "service_stopped")


CONTRACTS = {
    "someip.sd.ServiceDiscover._notify_service_offered": notify_service_offered,
    "someip.sd.ServiceDiscover._notify_service_stopped": notify_service_stopped,
}


class DWorld:
    """a discovery part in an arbitrary consistent state"""

    def __init__(self, vc, name="d", register=True, track=("A_S", "B_S", "X_Sx")):
        self.vc = vc
        self.loop = vc.install_loop(LL.FakeLoop(vc.real(name + ".now", 0)))
        self.prot, self.sent = SS.gen_sd_protocol(vc, name + ".prot")
        self.disc = self.prot.discovery
        self.log = []
        self.disc._verif_world = self
        # ARBITRARILY MANY registrations: filter -> set of listeners, and watch-all listeners
        # (lazily materialised); L and Lall are the two listeners the obligations follow
        self.disc.watched_services = vc.lazy_dict(name + ".watched", self.gen_listener_set, self.gen_filter, default=set)
        self.disc.watcher_all_services = vc.lazy_set(name + ".watch_all", self.gen_other_listener)
        self.L = self.mk_listener(name + ".L", "L")
        self.Lall = self.mk_listener(name + ".Lall", "Lall")
        self.A = vc.opaque(name + ".A", "addr")
        self.B = vc.opaque(name + ".B", "addr")
        vc.assume(self.A != self.B)
        # the offer of interest and the service it describes
        self.offer = SCFG.gen_entry(vc, name + ".offer", sd_type=H.SOMEIPSDEntryType.OfferService, resolved=True)
        self.S = C.Service.from_offer_entry(self.offer)
        # the listener's filter: matching is by contract (C19); three representative filters
        kind = vc.choice(name + ".filter", ("any-instance", "exact", "other-instance"))
        if kind == "any-instance":
            self.F = C.Service(self.S.service_id)
        elif kind == "exact":
            self.F = C.Service(self.S.service_id, self.S.instance_id, self.S.major_version, self.S.minor_version)
        else:
            other = vc.int(name + ".F.instance_id", 0, 0xFFFE)
            vc.assume(other != self.S.instance_id)
            vc.assume(self.S.instance_id != 0xFFFF)
            self.F = C.Service(self.S.service_id, other)
        self.registered = register
        if self.registered:
            # F is registered with L and arbitrarily many other listeners
            ls = vc.lazy_set(name + ".F.listeners", self.gen_other_listener)
            ls.add(self.L)
            self.disc.watched_services[self.F] = ls
        elif self.F in self.disc.watched_services:
            vc.assume(self.L not in self.disc.watched_services[self.F])
        self.all_registered = register and vc.choice(name + ".Lall_registered", (True, False))
        if self.all_registered:
            self.disc.watcher_all_services.add(self.Lall)
        else:
            vc.assume(self.Lall not in self.disc.watcher_all_services)
        # the store of known offers holds arbitrarily many entries (vc.lazy_dict): each existing
        # entry carries the discovery part's 'stopped' callback and None or a live timer
        ts = self.disc.found_services
        ts.store = vc.lazy_dict(name + ".found", self.gen_inner, self.gen_addr, default=dict)
        # (X, Sx): an ARBITRARY OTHER entry -- another service from the same source, or any
        # service (the same one included) from B or from any other source; what holds for it
        # holds for every other entry
        where = vc.choice(name + ".X", ("same-source", "B", "elsewhere"))
        if where == "same-source":
            self.X = self.A
        elif where == "B":
            self.X = self.B
        else:
            self.X = vc.opaque(name + ".X.addr", "addr")
            vc.assume(self.X != self.A and self.X != self.B)
        # any other entry: another service, or the same service from another source (the latter
        # is also named explicitly, which is what a bounded search needs to hit it)
        if self.X is not self.A and vc.choice(name + ".Sx_is_the_same_service", (False, True)):
            self.Sx = self.S
        else:
            self.Sx = SCFG.gen_service(vc, name + ".Sx", with_options=False)
        if self.X is self.A:
            vc.assume(self.Sx != self.S)
        self.S1 = self.Sx
        # entries the obligations talk about are looked at (materialised) up front
        self.slots = {}
        for tag, addr, key in (("A_S", self.A, self.S), ("B_S", self.B, self.S), ("X_Sx", self.X, self.Sx)):
            if tag in track:
                self.slots[(addr, key)] = self.state(addr, key)
        self.heap = vc.snapshot(prot=self.prot)

    def check_frame(self, label, allowed=()):
        """besides the store of known offers (whose slot-level frame the obligations state)
        nothing of the discovery part or the protocol object changes"""
        check_frame(self.vc, self.heap, label, ("prot.discovery.found_services.store*",) + tuple(allowed))

    def mk_listener(self, name, who):
        """a listener: an opaque object whose two callbacks record (who, what, service, source, listener)"""
        vc = self.vc
        l = vc.opaque(name, "listener")
        log = self.log

        def offered(service, source):
            log.append((who, "offered", service, source, l))

        def stopped(service, source):
            log.append((who, "stopped", service, source, l))

        vc.stub(l, "service_offered", offered)
        vc.stub(l, "service_stopped", stopped)
        return l

    def gen_other_listener(self, vc, name):
        return self.mk_listener(name, "other")

    def gen_filter(self, vc, name):
        return SCFG.gen_service(vc, name, with_options=False)

    def gen_listener_set(self, vc, name, key):
        return vc.lazy_set(name + ".listeners", self.gen_other_listener)

    def gen_addr(self, vc, name):
        return vc.opaque(name, "addr")

    def gen_service_key(self, vc, name):
        return SCFG.gen_service(vc, name, with_options=False)

    def gen_inner(self, vc, name, addr):
        ts = self.disc.found_services

        def gen_entry(vc2, name2, key):
            if vc2.choice(name2 + ".kind", ("timer", "forever")) == "forever":
                return (self.disc._notify_service_stopped, None)
            h = self.loop.call_later(vc2.real(name2 + ".remaining", 0), ts._expired, addr, key)
            return (self.disc._notify_service_stopped, h)

        return vc.lazy_dict(name + ".services", gen_entry, self.gen_service_key)

    def state(self, addr, key):
        if not self.present(addr, key):
            return None
        h = self.disc.found_services.store[addr][key][1]
        return ("forever", None) if h is None else ("timer", h)

    def present(self, addr, key):
        ts = self.disc.found_services
        return addr in ts.store and key in ts.store[addr]

    def events(self, who, service, source):
        return [e[1] for e in self.log if e[0] == who and e[2] == service and e[3] == source]

    def told(self, who, what, service, source):
        """how often listener `who` was told `what` about (service, source) -- no case split"""
        return self.vc.count([e[0] == who and e[1] == what and e[2] == service and e[3] == source for e in self.log])

    def check_step(self, label, before):
        """monitor step for every followed listener and every tracked (service, source): a
        listener whose filter matches is told 'offered' exactly once when the entry appeared,
        'stopped' exactly once when it disappeared, and nothing otherwise (once the loop is
        idle); listeners that are not concerned hear nothing"""
        vc = self.vc
        self.loop.run_ready()
        for slot in self.slots:
            addr, key = slot
            was = before[slot]
            now = self.present(addr, key)
            appeared = 1 if (now and not was) else 0
            disappeared = 1 if (was and not now) else 0
            for who, active in (("L", self.registered and self.F.matches_service(key)), ("Lall", self.all_registered)):
                vc.check_eq(self.told(who, "offered", key, addr), vc.ite(active, appeared, 0), label + ".offered_reported_exactly_when_the_entry_appeared_to_concerned_listeners_only")
                vc.check_eq(self.told(who, "stopped", key, addr), vc.ite(active, disappeared, 0), label + ".stopped_reported_exactly_when_the_entry_disappeared_to_concerned_listeners_only")
        self.check_frame(label)

    def snapshot(self):
        return {slot: self.present(slot[0], slot[1]) for slot in self.slots}


def ob_handle_offer(vc):
    """an offer (TTL > 0) for a watched service is recorded with its TTL and reported as
    'offered' iff it was not known; a stop-offer (TTL 0) removes it and is reported iff it
    was known; offers for services nobody watches change nothing"""
    w = DWorld(vc, track=("A_S", "X_Sx"))
    before = w.snapshot()
    decided = []
    real_is_watching = w.disc.is_watching_service

    def is_watching(entry):
        r = real_is_watching(entry)
        decided.append(r)
        return r

    vc.stub(w.disc, "is_watching_service", is_watching)
    w.heap = vc.snapshot(prot=w.prot)
    w.disc.handle_offer(w.offer, w.A)
    vc.check_eq(len(decided), 1, "handle_offer.asks_once_whether_the_service_is_watched")
    if len(decided) != 1:
        return
    watching = decided[0]
    if w.all_registered or (w.registered and w.F.matches_offer(w.offer)):
        # (ob_is_watching_service: true iff some registered filter matches or somebody watches all)
        vc.check(watching, "handle_offer.service_of_interest_to_a_listener_is_handled")
    if not watching:
        vc.cover("not-watched")
        vc.check_eq(w.present(w.A, w.S), before[(w.A, w.S)], "handle_offer.unwatched_service_ignored")
    elif w.offer.ttl == 0:
        vc.cover("stop-offer")
        vc.check(not w.present(w.A, w.S), "handle_offer.stop_offer_withdraws")
    else:
        vc.cover("offer")
        vc.check(w.present(w.A, w.S), "handle_offer.offer_recorded")
        if w.present(w.A, w.S):
            h = w.disc.found_services.store[w.A][w.S][1]
            if w.offer.ttl == 0xFFFFFF:
                vc.check(h is None, "handle_offer.infinite_ttl_never_expires")
            else:
                vc.check(h is not None and h.when == w.loop.now + w.offer.ttl and not h.cancelled_, "handle_offer.expires_ttl_after_this_offer")
    vc.check_eq(w.present(w.X, w.Sx), before[(w.X, w.Sx)], "handle_offer.every_other_entry_untouched")
    w.check_step("handle_offer", before)


def ob_expiry(vc):
    """the TTL of a known offer runs out: reported stopped exactly once"""
    w = DWorld(vc)
    st = w.slots[(w.A, w.S)]
    vc.assume(st is not None and st[1] is not None)
    before = w.snapshot()
    w.loop.fire(st[1])
    vc.check(not w.present(w.A, w.S), "expiry.entry_removed")
    w.check_step("expiry", before)


def _elem_head(vc, v, entering):
    vc.stash("loop.entering", entering)


def _addr_head(vc, v, entering):
    if entering:
        vc.stash("watch.addr", v["$target"][0])


def _svc_head(vc, v, entering):
    vc.stash("watch.inner", entering)
    if entering:
        vc.stash("watch.service", v["$target"])


def _nf_filter_head(vc, v, entering):
    st = vc.stashed("notify")
    if entering:
        st["filter"] = v["$target"][0]


def _nf_listener_head(vc, v, entering):
    st = vc.stashed("notify")
    if entering:
        st["listener"] = v["$target"]


def _nf_all_head(vc, v, entering):
    st = vc.stashed("notify")
    if entering:
        st["all"] = v["$target"]


_NOTIFY_LOOPS = {"head": _nf_filter_head}, {"head": _nf_listener_head}, {"head": _nf_all_head}

LOOPS = {
    ("someip.sd.ServiceDiscover._notify_service_offered", 0): _NOTIFY_LOOPS[0],
    ("someip.sd.ServiceDiscover._notify_service_offered", 1): _NOTIFY_LOOPS[1],
    ("someip.sd.ServiceDiscover._notify_service_offered", 2): _NOTIFY_LOOPS[2],
    ("someip.sd.ServiceDiscover._notify_service_stopped", 0): _NOTIFY_LOOPS[0],
    ("someip.sd.ServiceDiscover._notify_service_stopped", 1): _NOTIFY_LOOPS[1],
    ("someip.sd.ServiceDiscover._notify_service_stopped", 2): _NOTIFY_LOOPS[2],
    ("someip.sd.ServiceDiscover.watch_service", 0): {"head": _addr_head},
    ("someip.sd.ServiceDiscover.watch_service", 1): {"head": _svc_head},
    ("someip.sd.ServiceDiscover.stop_watch_service", 0): {"head": _addr_head},
    ("someip.sd.ServiceDiscover.stop_watch_service", 1): {"head": _svc_head},
    ("someip.sd.ServiceDiscover.watch_all_services", 0): {"head": _addr_head},
    ("someip.sd.ServiceDiscover.watch_all_services", 1): {"head": _svc_head},
    ("someip.sd.ServiceDiscover.stop_watch_all_services", 0): {"head": _addr_head},
    ("someip.sd.ServiceDiscover.stop_watch_all_services", 1): {"head": _svc_head},
}


def _mass_withdrawal(vc, w, o, label, addr_of_interest):
    """obligations shared by reboot_detected(addr) and connection_lost(): the store is
    walked by TimedStore.stop_all_for_address / stop_all, whose loops are verified for one
    arbitrary entry (spec_store): that entry is reported 'stopped' -- exactly once and before
    the call returns -- to every concerned listener, and to nobody else"""
    vc.check(o.kind != "raise", label + ".never_raises")
    vc.check_eq(len(w.loop.ready), 0, label + ".defers_nothing")
    if vc.native:
        # a replay walks the whole store: every tracked entry that was removed was reported once
        for slot, st in w.slots.items():
            addr, key = slot
            if st is not None and (addr_of_interest is None or addr == addr_of_interest):
                if w.F.matches_service(key):
                    vc.check_eq(w.events("L", key, addr), ["stopped"], label + ".withdrawn_offer_reported_stopped_once")
        return
    elem = vc.stashed("saa.element") if vc.stashed("saa.entering") else None
    if o.kind == "cut" and elem is not None:
        vc.cover("entry")
        service = elem[0]
        addr = addr_of_interest if addr_of_interest is not None else vc.stashed("sa.addr")
        told_L = [e[1] for e in w.log if e[0] == "L"]
        told_all = [e[1] for e in w.log if e[0] == "Lall"]
        vc.check_eq(told_L, ["stopped"] if w.F.matches_service(service) else [], label + ".entry_reported_stopped_once_to_a_matching_listener_only")
        vc.check_eq(told_all, ["stopped"] if w.all_registered else [], label + ".entry_reported_stopped_once_to_watch_all_listeners")
        for e in w.log:
            vc.check(e[2] == service and e[3] == addr, label + ".report_names_the_withdrawn_offer_and_its_source")
        vc.check(not w.present(addr, service), label + ".withdrawn_offer_forgotten")
    else:
        vc.check_eq(w.log, [], label + ".nothing_reported_beyond_the_entries")


def _notify_obligations(vc, fn, what, label):
    """the fan-out to ARBITRARILY MANY registered listeners (loop contracts, one arbitrary
    element each): a listener registered under an arbitrary filter is called -- exactly once,
    with the service and its source -- iff that filter matches the service; an arbitrary
    watch-all listener is called exactly once; nobody else is called.  (The keys of a dict
    and the members of a set are visited once each, so 'once per registration'.)"""
    w = DWorld(vc, register=vc.choice("F_and_L_registered", (True, False)), track=())
    service = SCFG.gen_service(vc, "service", with_options=False)
    source = vc.opaque("source", "addr")
    st = {"filter": None, "listener": None, "all": None}
    vc.stash("notify", st)
    w.heap = vc.snapshot(prot=w.prot)
    o = vc.outcome(vc.body(fn), w.disc, service, source)
    vc.check(o.kind != "raise", label + ".never_raises")
    w.check_frame(label)
    if vc.native:
        exp = []
        for f, listeners in w.disc.watched_services.items():
            if f.matches_service(service):
                for l in listeners:
                    exp.append(l)
        for l in w.disc.watcher_all_services:
            exp.append(l)
        vc.check_eq(sorted([repr(e[4]) for e in w.log]), sorted([repr(l) for l in exp]), label + ".every_concerned_listener_exactly_once_and_nobody_else")
        vc.check(all(e[1] == what and e[2] == service and e[3] == source for e in w.log), label + ".told_about_this_service_and_source")
        return
    if st["all"] is not None:
        vc.cover("watch-all-listener")
        vc.check(len(w.log) == 1 and w.log[0][4] is st["all"], label + ".watch_all_listener_called_exactly_once")
    elif st["listener"] is not None:
        vc.cover("filter-listener")
        vc.check(st["filter"].matches_service(service), label + ".listeners_of_a_filter_that_does_not_match_are_not_called")
        vc.check(len(w.log) == 1 and w.log[0][4] is st["listener"], label + ".listener_of_a_matching_filter_called_exactly_once")
    else:
        vc.cover("nobody")
        vc.check_eq(len(w.log), 0, label + ".nobody_else_is_called")
    for e in w.log:
        vc.check(e[1] == what and e[2] == service and e[3] == source, label + ".told_about_this_service_and_source")


def ob_notify_offered(vc):
    _notify_obligations(vc, SD.ServiceDiscover._notify_service_offered, "offered", "_notify_service_offered")


def ob_notify_stopped(vc):
    _notify_obligations(vc, SD.ServiceDiscover._notify_service_stopped, "stopped", "_notify_service_stopped")


def canary_notify_calls_nobody(vc):
    """must be refuted: claims the fan-out never calls a listener (guards the loop contracts
    of the notify loops against a cut that never enters the body)"""
    w = DWorld(vc, track=())
    service = SCFG.gen_service(vc, "service", with_options=False)
    st = {"filter": None, "listener": None, "all": None}
    vc.stash("notify", st)
    vc.outcome(vc.body(SD.ServiceDiscover._notify_service_offered), w.disc, service, vc.opaque("source", "addr"))
    if not vc.native:
        vc.check_eq(len(w.log), 0, "canary")


def ob_is_watching_service(vc):
    """is_watching_service(entry) over ARBITRARILY MANY registrations: true iff somebody
    watches all services or some registered filter matches the offer"""
    w = DWorld(vc, register=vc.choice("F_and_L_registered", (True, False)), track=())
    w.heap = vc.snapshot(prot=w.prot)
    r = vc.body(SD.ServiceDiscover.is_watching_service)(w.disc, w.offer)
    w.check_frame("is_watching_service")
    if vc.native:
        exp = len(w.disc.watcher_all_services) > 0
        for f in w.disc.watched_services.keys():
            exp = exp or f.matches_offer(w.offer)
        vc.check_eq(bool(r), exp, "is_watching_service.iff_watch_all_or_some_registered_filter_matches")
        return
    if r:
        vc.cover("watched")
        if len(w.disc.watcher_all_services) == 0:
            vc.cover("by-filter")
            ws = vc.witnesses()
            vc.check(len(ws) == 1, "is_watching_service.true_has_a_witness")
            if len(ws) == 1:
                vc.check(ws[0][0] in w.disc.watched_services, "is_watching_service.true_only_for_a_registered_filter")
                vc.check(ws[0][0].matches_offer(w.offer), "is_watching_service.true_only_if_that_filter_matches")
    else:
        vc.cover("not-watched")
        vc.check_eq(len(w.disc.watcher_all_services), 0, "is_watching_service.false_only_if_nobody_watches_all")
        vc.check(not w.all_registered, "is_watching_service.false_only_if_nobody_watches_all")
        if w.registered:
            vc.cover("registered-filter")
            vc.check(not w.F.matches_offer(w.offer), "is_watching_service.false_only_if_no_registered_filter_matches")


def ob_reboot_detected(vc):
    """a detected reboot of a source withdraws everything learnt from it, and only that"""
    w = DWorld(vc, track=("B_S", "X_Sx"))
    before = w.snapshot()
    o = vc.outcome(vc.body(SD.ServiceDiscover.reboot_detected), w.disc, w.A)
    _mass_withdrawal(vc, w, o, "reboot_detected", w.A)
    vc.check(not w.present(w.A, w.S) and not w.present(w.A, w.Sx), "reboot_detected.source_forgotten")
    vc.check_eq(w.present(w.B, w.S), before[(w.B, w.S)], "reboot_detected.other_sources_kept")
    if w.X is not w.A:
        vc.check_eq(w.present(w.X, w.Sx), before[(w.X, w.Sx)], "reboot_detected.entries_of_other_sources_kept")
    else:
        vc.check(not before[(w.X, w.Sx)] or True, "reboot_detected.entries_of_the_source_removed")
    w.check_frame("reboot_detected")


def ob_connection_lost(vc):
    w = DWorld(vc, track=("X_Sx",))
    o = vc.outcome(vc.body(SD.ServiceDiscover.connection_lost), w.disc, None)
    _mass_withdrawal(vc, w, o, "connection_lost", None)
    if o.kind == "ret":
        vc.cover("done")
        for slot in w.slots:
            vc.check(not w.present(slot[0], slot[1]), "connection_lost.everything_forgotten")
    w.check_frame("connection_lost")


def ob_offer_after_reboot(vc):
    """the offer of a message that revealed a reboot is handled after the reboot has been
    applied (message_received: reboot before entries; reboot_detected reports everything
    before it returns): the source's entries are gone, so the offer is reported 'offered'"""
    w = DWorld(vc)
    vc.assume(w.F.matches_service(w.S))
    vc.assume(w.offer.ttl != 0)
    vc.assume(not w.present(w.A, w.S))  # state after reboot_detected(A)
    sdhdr = H.SOMEIPSDHeader(entries=(w.offer,), flag_unicast=True)
    w.prot.sd_message_received(sdhdr, w.A, vc.bool("multicast"))
    w.loop.run_ready()
    vc.check_eq(w.events("L", w.S, w.A), ["offered"], "reboot.offer_of_the_same_message_reported_after_the_withdrawal")
    vc.check(w.present(w.A, w.S), "reboot.new_offer_is_live")
    w.check_frame("reboot.offer")


def _registration(vc, w, o, label, body_label, listener_name, kind, matches_all):
    """obligations shared by the four (un)registration functions: for one arbitrary known
    offer (s from addr) exactly one notification is queued for the listener iff its filter
    matches (always for watch-all), and nothing else"""
    vc.check(o.kind != "raise", label + ".never_raises")
    pend = w.loop.pending()
    if vc.native:
        # a replay walks the whole concrete store: one queued notification per known offer
        # the listener's filter matches, and nothing else
        listener = w.L if listener_name == "L" else w.Lall
        target = listener.service_offered if kind == "offered" else listener.service_stopped
        exp = []
        for addr, services in w.disc.found_services.store.items():
            for s_ in services:
                if matches_all or w.F.matches_service(s_):
                    exp.append((target, (s_, addr)))
        vc.check_eq(sorted([repr(x) for x in pend]), sorted([repr(x) for x in exp]), label + "." + body_label)
        vc.check_eq(w.log, [], label + ".listener_only_called_from_the_loop")
        return
    if o.kind == "cut" and vc.stashed("watch.inner"):
        vc.cover("known-offer")
        s_ = vc.stashed("watch.service")
        addr = vc.stashed("watch.addr")
        listener = w.L if listener_name == "L" else w.Lall
        target = listener.service_offered if kind == "offered" else listener.service_stopped
        if matches_all or w.F.matches_service(s_):
            vc.check_eq(pend, [(target, (s_, addr))], label + "." + body_label)
        else:
            vc.check_eq(pend, [], label + ".non_matching_offer_not_reported")
    else:
        vc.check_eq(pend, [], label + ".nothing_else_queued")
    vc.check_eq(w.log, [], label + ".listener_only_called_from_the_loop")


def ob_watch_service(vc):
    """registering a listener: it is told (through the event loop) about every matching
    live offer and from then on takes part in the alternation"""
    w = DWorld(vc, register=False, track=())
    o = vc.outcome(vc.body(SD.ServiceDiscover.watch_service), w.disc, w.F, w.L)
    vc.check(w.L in w.disc.watched_services[w.F], "watch_service.registered")
    _registration(vc, w, o, "watch_service", "matching_live_offer_queued_for_the_new_listener_once", "L", "offered", False)
    w.check_frame("watch_service", ("prot.discovery.watched_services*",))


def ob_watch_all_services(vc):
    w = DWorld(vc, register=False, track=())
    o = vc.outcome(vc.body(SD.ServiceDiscover.watch_all_services), w.disc, w.Lall)
    vc.check(w.Lall in w.disc.watcher_all_services, "watch_all_services.registered")
    _registration(vc, w, o, "watch_all_services", "every_live_offer_queued_for_the_new_listener_once", "Lall", "offered", True)
    w.check_frame("watch_all_services", ("prot.discovery.watcher_all_services*",))


def ob_stop_watch(vc):
    """unregistering: the listener is removed (and hears nothing of later changes: the
    notification fan-out only reaches registered listeners, see handle_offer / expiry)"""
    w = DWorld(vc, track=())
    o = vc.outcome(vc.body(SD.ServiceDiscover.stop_watch_service), w.disc, w.F, w.L)
    vc.check(w.L not in w.disc.watched_services[w.F], "stop_watch_service.unregistered")
    _registration(vc, w, o, "stop_watch_service", "matching_live_offer_reported_stopped_to_the_leaving_listener_once", "L", "stopped", False)
    w.check_frame("stop_watch_service", ("prot.discovery.watched_services*",))


def ob_stop_watch_all(vc):
    w = DWorld(vc, track=())
    vc.assume(w.all_registered)
    o = vc.outcome(vc.body(SD.ServiceDiscover.stop_watch_all_services), w.disc, w.Lall)
    vc.check(w.Lall not in w.disc.watcher_all_services, "stop_watch_all_services.unregistered")
    _registration(vc, w, o, "stop_watch_all_services", "every_live_offer_reported_stopped_to_the_leaving_listener_once", "Lall", "stopped", True)
    w.check_frame("stop_watch_all_services", ("prot.discovery.watcher_all_services*",))


def ob_late_registration_overtaken(vc):
    """KNOWN FINDING D10 region: a listener registered while an offer is live is told
    'offered' through the event loop; a stop-offer handled before that queued callback
    runs is reported first"""
    w = DWorld(vc, register=False)
    vc.assume(w.slots[(w.A, w.S)] is not None)
    vc.assume(w.F.matches_service(w.S))
    # watch_service(F, L): registers, and for the matching live offer S from A queues
    # L.service_offered(S, A) on the loop (ob_watch_service)
    w.disc.watched_services[w.F].add(w.L)
    w.loop.call_soon(w.L.service_offered, w.S, w.A)
    w.registered = True
    stop = H.SOMEIPSDEntry(
        sd_type=H.SOMEIPSDEntryType.OfferService,
        service_id=w.offer.service_id,
        instance_id=w.offer.instance_id,
        major_version=w.offer.major_version,
        ttl=0,
        minver_or_counter=w.offer.minver_or_counter,
    )
    w.disc.handle_offer(stop, w.A)
    w.loop.run_ready()
    ev = w.events("L", w.S, w.A)
    live = w.present(w.A, w.S)
    vc.check(not live, "late_registration.stop_offer_withdraws")
    ok = (len(ev) == 0 or ev[len(ev) - 1] == "stopped") and (len(ev) == 0 or ev[0] == "offered")
    vc.check(ok, "late_registration@stop_offer_before_queued_notification.history_alternates_and_is_truthful")


HARNESSES = ST.STORE_OBLIGATIONS + [
    ob_is_watching_service,
    ob_notify_offered,
    ob_notify_stopped,
    ob_handle_offer,
    ob_expiry,
    ob_reboot_detected,
    ob_connection_lost,
    ob_offer_after_reboot,
    ob_watch_service,
    ob_watch_all_services,
    ob_stop_watch,
    ob_stop_watch_all,
    ob_late_registration_overtaken,
    canary_notify_calls_nobody,
] + SS.MESSAGE_RECEIVED_OBLIGATIONS + SS.DISPATCH_OBLIGATIONS + [SS.ob_check_received_refines]

EXPECT_COVERS = {
    "ob_handle_offer": ["not-watched", "stop-offer", "offer"],
    "ob_reboot_detected": ["entry"],
    "ob_connection_lost": ["entry", "done"],
    "ob_watch_service": ["known-offer"],
    "ob_watch_all_services": ["known-offer"],
    "ob_stop_watch": ["known-offer"],
    "ob_notify_offered": ["watch-all-listener", "filter-listener", "nobody"],
    "ob_notify_stopped": ["watch-all-listener", "filter-listener", "nobody"],
    "ob_is_watching_service": ["watched", "by-filter", "not-watched", "registered-filter"],
}
