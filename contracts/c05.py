"""C05 -- discovery listeners see a truthful, strictly alternating service history."""
import someip.config as C
import someip.header as H
import someip.sd as SD
from contracts import looplib as LL
from contracts import spec_config as SCFG
from contracts import spec_sd as SS
from contracts import spec_store as ST
from contracts.common import check_frame, gen_addr

FUNCTIONS = [
    "someip.sd.ServiceDiscover.handle_offer",
    "someip.sd.ServiceDiscover.is_watching_service",
    "someip.sd.ServiceDiscover.service_offered",
    "someip.sd.ServiceDiscover.service_offer_stopped",
    "someip.sd.ServiceDiscover.watch_service",
    "someip.sd.ServiceDiscover.stop_watch_service",
    "someip.sd.ServiceDiscover.watch_all_services",
    "someip.sd.ServiceDiscover.stop_watch_all_services",
    "someip.sd.ServiceDiscover.reboot_detected",
    "someip.sd.ServiceDiscover.connection_lost",
    "someip.sd.ServiceDiscover._notify_service_offered",
    "someip.sd.ServiceDiscover._notify_service_stopped",
    "someip.sd.TimedStore.* (spec_store obligations; bodies inlined at the call sites)",
    "someip.sd.ServiceDiscoveryProtocol.message_received (reboot before entries)",
]

ASSUMPTIONS = [
    "event-loop model contracts/looplib.py (trusted); 'once the loop is idle' = after run_ready()",
    "listeners are recorders that do not raise and are registered once",
    "history claims are proved as one inductive step from an arbitrary consistent state (monitor: the listener's last notification for (service, source) is 'offered' iff the entry is in the store) under every single operation; the induction over the history is the (trusted) induction rule",
]

BOUNDED = ["listener registrations: one filter with one listener plus one watch-all listener (each optional); the store of known offers is unbounded"]

EXPLANATION = "each operation of the discovery part is proved to keep the monitor invariant (alternation, truthfulness) for all ids, wildcards, TTLs, addresses and times; the number of simultaneously stored other entries and of registered listeners is bounded in shape (bounded_stand_ins); one schedule (late registration overtaken by a StopOffer) is a recorded known finding"


class Recorder(SD.ClientServiceListener):
    VC_MODEL = True  # environment model (write-only recorder): outside the frames of loop contracts

    def __init__(self, name, log):
        self.name = name
        self.log = log

    def service_offered(self, service, source):
        self.log.append((self.name, "offered", service, source))

    def service_stopped(self, service, source):
        self.log.append((self.name, "stopped", service, source))


class DWorld:
    """a discovery part in an arbitrary consistent state"""

    def __init__(self, vc, name="d", register=True, track=("A_S", "B_S", "X_Sx")):
        self.vc = vc
        self.loop = vc.install_loop(LL.FakeLoop(vc.real(name + ".now", 0)))
        self.prot, self.sent = SS.gen_sd_protocol(vc, name + ".prot")
        self.disc = self.prot.discovery
        self.log = []
        self.L = Recorder("L", self.log)
        self.Lall = Recorder("Lall", self.log)
        self.A = vc.opaque(name + ".A", "addr")
        self.B = vc.opaque(name + ".B", "addr")
        vc.assume(self.A != self.B)
        # the offer of interest and the service it describes
        self.offer = SCFG.gen_entry(vc, name + ".offer", sd_type=H.SOMEIPSDEntryType.OfferService, resolved=True)
        self.S = C.Service.from_offer_entry(self.offer)
        # the listener's filter: matching is by contract (C19); three representative filters
        kind = vc.choice(name + ".filter", ("any-instance", "exact", "other-instance"))
        if kind == "any-instance":
            self.F = C.Service(self.S.service_id)
        elif kind == "exact":
            self.F = C.Service(self.S.service_id, self.S.instance_id, self.S.major_version, self.S.minor_version)
        else:
            other = vc.int(name + ".F.instance_id", 0, 0xFFFE)
            vc.assume(other != self.S.instance_id)
            vc.assume(self.S.instance_id != 0xFFFF)
            self.F = C.Service(self.S.service_id, other)
        self.registered = register
        if self.registered:
            self.disc.watched_services[self.F].add(self.L)
        self.all_registered = register and vc.choice(name + ".Lall_registered", (True, False))
        if self.all_registered:
            self.disc.watcher_all_services.add(self.Lall)
        # the store of known offers holds arbitrarily many entries (vc.lazy_dict): each existing
        # entry carries the discovery part's 'stopped' callback and None or a live timer
        ts = self.disc.found_services
        ts.store = vc.lazy_dict(name + ".found", self.gen_inner, self.gen_addr, default=dict)
        # (X, Sx): an ARBITRARY OTHER entry -- another service, from the same source, from B
        # or from any other source; what holds for it holds for every other entry
        where = vc.choice(name + ".X", ("same-source", "B", "elsewhere"))
        if where == "same-source":
            self.X = self.A
        elif where == "B":
            self.X = self.B
        else:
            self.X = vc.opaque(name + ".X.addr", "addr")
            vc.assume(self.X != self.A and self.X != self.B)
        self.Sx = SCFG.gen_service(vc, name + ".Sx", with_options=False)
        vc.assume(self.Sx != self.S)
        self.S1 = self.Sx
        # entries the obligations talk about are looked at (materialised) up front
        self.slots = {}
        for tag, addr, key in (("A_S", self.A, self.S), ("B_S", self.B, self.S), ("X_Sx", self.X, self.Sx)):
            if tag in track:
                self.slots[(addr, key)] = self.state(addr, key)
        self.heap = vc.snapshot(prot=self.prot)

    def check_frame(self, label, allowed=()):
        """besides the store of known offers (whose slot-level frame the obligations state)
        nothing of the discovery part or the protocol object changes"""
        check_frame(self.vc, self.heap, label, ("prot.discovery.found_services.store*",) + tuple(allowed))

    def gen_addr(self, vc, name):
        return vc.opaque(name, "addr")

    def gen_service_key(self, vc, name):
        return SCFG.gen_service(vc, name, with_options=False)

    def gen_inner(self, vc, name, addr):
        ts = self.disc.found_services

        def gen_entry(vc2, name2, key):
            if vc2.choice(name2 + ".kind", ("timer", "forever")) == "forever":
                return (self.disc._notify_service_stopped, None)
            h = self.loop.call_later(vc2.real(name2 + ".remaining", 0), ts._expired, addr, key)
            return (self.disc._notify_service_stopped, h)

        return vc.lazy_dict(name + ".services", gen_entry, self.gen_service_key)

    def state(self, addr, key):
        if not self.present(addr, key):
            return None
        h = self.disc.found_services.store[addr][key][1]
        return ("forever", None) if h is None else ("timer", h)

    def present(self, addr, key):
        ts = self.disc.found_services
        return addr in ts.store and key in ts.store[addr]

    def events(self, who, service, source):
        return [e[1] for e in self.log if e[0] == who and e[2] == service and e[3] == source]

    def check_step(self, label, before):
        """monitor step for every listener and every tracked (service, source): a listener
        whose filter matches is told 'offered' exactly when the entry appeared, 'stopped'
        exactly when it disappeared, and nothing otherwise (once the loop is idle)"""
        vc = self.vc
        self.loop.run_ready()
        for slot in self.slots:
            addr, key = slot
            was = before[slot]
            now = self.present(addr, key)
            for who, active in (("L", self.registered and self.F.matches_service(key)), ("Lall", self.all_registered)):
                ev = self.events(who, key, addr)
                if not active:
                    vc.check_eq(ev, [], label + ".unconcerned_listener_hears_nothing")
                elif was and not now:
                    vc.check_eq(ev, ["stopped"], label + ".disappearance_reported_stopped_once")
                elif now and not was:
                    vc.check_eq(ev, ["offered"], label + ".appearance_reported_offered_once")
                else:
                    vc.check_eq(ev, [], label + ".no_change_no_notification")
        self.check_frame(label)

    def snapshot(self):
        return {slot: self.present(slot[0], slot[1]) for slot in self.slots}


def ob_handle_offer(vc):
    """an offer (TTL > 0) for a watched service is recorded with its TTL and reported as
    'offered' iff it was not known; a stop-offer (TTL 0) removes it and is reported iff it
    was known; offers for services nobody watches change nothing"""
    w = DWorld(vc)
    before = w.snapshot()
    watching = w.all_registered or (w.registered and w.F.matches_offer(w.offer))
    w.disc.handle_offer(w.offer, w.A)
    if not watching:
        vc.cover("not-watched")
        vc.check_eq(w.present(w.A, w.S), before[(w.A, w.S)], "handle_offer.unwatched_service_ignored")
    elif w.offer.ttl == 0:
        vc.cover("stop-offer")
        vc.check(not w.present(w.A, w.S), "handle_offer.stop_offer_withdraws")
    else:
        vc.cover("offer")
        vc.check(w.present(w.A, w.S), "handle_offer.offer_recorded")
        if w.present(w.A, w.S):
            h = w.disc.found_services.store[w.A][w.S][1]
            if w.offer.ttl == 0xFFFFFF:
                vc.check(h is None, "handle_offer.infinite_ttl_never_expires")
            else:
                vc.check(h is not None and h.when == w.loop.now + w.offer.ttl and not h.cancelled_, "handle_offer.expires_ttl_after_this_offer")
    vc.check_eq(w.present(w.B, w.S), before[(w.B, w.S)], "handle_offer.same_service_from_other_sources_untouched")
    vc.check_eq(w.present(w.X, w.Sx), before[(w.X, w.Sx)], "handle_offer.other_services_untouched")
    w.check_step("handle_offer", before)


def ob_expiry(vc):
    """the TTL of a known offer runs out: reported stopped exactly once"""
    w = DWorld(vc)
    st = w.slots[(w.A, w.S)]
    vc.assume(st is not None and st[1] is not None)
    before = w.snapshot()
    w.loop.fire(st[1])
    vc.check(not w.present(w.A, w.S), "expiry.entry_removed")
    w.check_step("expiry", before)


def _elem_head(vc, v, entering):
    vc.stash("loop.entering", entering)


def _addr_head(vc, v, entering):
    if entering:
        vc.stash("watch.addr", v["addr"])


def _svc_head(vc, v, entering):
    vc.stash("watch.inner", entering)
    if entering:
        vc.stash("watch.service", v["s"])


LOOPS = {
    ("someip.sd.ServiceDiscover.watch_service", 0): {"head": _addr_head},
    ("someip.sd.ServiceDiscover.watch_service", 1): {"head": _svc_head},
    ("someip.sd.ServiceDiscover.stop_watch_service", 0): {"head": _addr_head},
    ("someip.sd.ServiceDiscover.stop_watch_service", 1): {"head": _svc_head},
    ("someip.sd.ServiceDiscover.watch_all_services", 0): {"head": _addr_head},
    ("someip.sd.ServiceDiscover.watch_all_services", 1): {"head": _svc_head},
    ("someip.sd.ServiceDiscover.stop_watch_all_services", 0): {"head": _addr_head},
    ("someip.sd.ServiceDiscover.stop_watch_all_services", 1): {"head": _svc_head},
}


def _mass_withdrawal(vc, w, o, label, addr_of_interest):
    """obligations shared by reboot_detected(addr) and connection_lost(): the store is
    walked by TimedStore.stop_all_for_address / stop_all, whose loops are verified for one
    arbitrary entry (spec_store): that entry is reported 'stopped' -- exactly once and before
    the call returns -- to every concerned listener, and to nobody else"""
    vc.check(o.kind != "raise", label + ".never_raises")
    vc.check_eq(len(w.loop.ready), 0, label + ".defers_nothing")
    if vc.native:
        # a replay walks the whole store: every tracked entry that was removed was reported once
        for slot, st in w.slots.items():
            addr, key = slot
            if st is not None and (addr_of_interest is None or addr == addr_of_interest):
                if w.F.matches_service(key):
                    vc.check_eq(w.events("L", key, addr), ["stopped"], label + ".withdrawn_offer_reported_stopped_once")
        return
    elem = vc.stashed("saa.element") if vc.stashed("saa.entering") else None
    if o.kind == "cut" and elem is not None:
        vc.cover("entry")
        service = elem[0]
        addr = addr_of_interest if addr_of_interest is not None else vc.stashed("sa.addr")
        told_L = [e[1] for e in w.log if e[0] == "L"]
        told_all = [e[1] for e in w.log if e[0] == "Lall"]
        vc.check_eq(told_L, ["stopped"] if w.F.matches_service(service) else [], label + ".entry_reported_stopped_once_to_a_matching_listener_only")
        vc.check_eq(told_all, ["stopped"] if w.all_registered else [], label + ".entry_reported_stopped_once_to_watch_all_listeners")
        for e in w.log:
            vc.check(e[2] == service and e[3] == addr, label + ".report_names_the_withdrawn_offer_and_its_source")
        vc.check(not w.present(addr, service), label + ".withdrawn_offer_forgotten")
    else:
        vc.check_eq(w.log, [], label + ".nothing_reported_beyond_the_entries")


def ob_reboot_detected(vc):
    """a detected reboot of a source withdraws everything learnt from it, and only that"""
    w = DWorld(vc, track=("B_S", "X_Sx"))
    before = w.snapshot()
    o = vc.outcome(vc.body(SD.ServiceDiscover.reboot_detected), w.disc, w.A)
    _mass_withdrawal(vc, w, o, "reboot_detected", w.A)
    vc.check(not w.present(w.A, w.S) and not w.present(w.A, w.Sx), "reboot_detected.source_forgotten")
    vc.check_eq(w.present(w.B, w.S), before[(w.B, w.S)], "reboot_detected.other_sources_kept")
    if w.X is not w.A:
        vc.check_eq(w.present(w.X, w.Sx), before[(w.X, w.Sx)], "reboot_detected.entries_of_other_sources_kept")
    else:
        vc.check(not before[(w.X, w.Sx)] or True, "reboot_detected.entries_of_the_source_removed")
    w.check_frame("reboot_detected")


def ob_connection_lost(vc):
    w = DWorld(vc, track=("X_Sx",))
    o = vc.outcome(vc.body(SD.ServiceDiscover.connection_lost), w.disc, None)
    _mass_withdrawal(vc, w, o, "connection_lost", None)
    if o.kind == "ret":
        vc.cover("done")
        for slot in w.slots:
            vc.check(not w.present(slot[0], slot[1]), "connection_lost.everything_forgotten")
    w.check_frame("connection_lost")


def ob_offer_after_reboot(vc):
    """the offer of a message that revealed a reboot is handled after the reboot has been
    applied (message_received: reboot before entries; reboot_detected reports everything
    before it returns): the source's entries are gone, so the offer is reported 'offered'"""
    w = DWorld(vc)
    vc.assume(w.F.matches_service(w.S))
    vc.assume(w.offer.ttl != 0)
    vc.assume(not w.present(w.A, w.S))  # state after reboot_detected(A)
    sdhdr = H.SOMEIPSDHeader(entries=(w.offer,), flag_unicast=True)
    w.prot.sd_message_received(sdhdr, w.A, vc.bool("multicast"))
    w.loop.run_ready()
    vc.check_eq(w.events("L", w.S, w.A), ["offered"], "reboot.offer_of_the_same_message_reported_after_the_withdrawal")
    vc.check(w.present(w.A, w.S), "reboot.new_offer_is_live")
    w.check_frame("reboot.offer")


def _registration(vc, w, o, label, body_label, listener_name, kind, matches_all):
    """obligations shared by the four (un)registration functions: for one arbitrary known
    offer (s from addr) exactly one notification is queued for the listener iff its filter
    matches (always for watch-all), and nothing else"""
    vc.check(o.kind != "raise", label + ".never_raises")
    pend = w.loop.pending()
    if vc.native:
        return
    if o.kind == "cut" and vc.stashed("watch.inner"):
        vc.cover("known-offer")
        s_ = vc.stashed("watch.service")
        addr = vc.stashed("watch.addr")
        listener = w.L if listener_name == "L" else w.Lall
        target = listener.service_offered if kind == "offered" else listener.service_stopped
        if matches_all or w.F.matches_service(s_):
            vc.check_eq(pend, [(target, (s_, addr))], label + "." + body_label)
        else:
            vc.check_eq(pend, [], label + ".non_matching_offer_not_reported")
    else:
        vc.check_eq(pend, [], label + ".nothing_else_queued")
    vc.check_eq(w.log, [], label + ".listener_only_called_from_the_loop")


def ob_watch_service(vc):
    """registering a listener: it is told (through the event loop) about every matching
    live offer and from then on takes part in the alternation"""
    w = DWorld(vc, register=False, track=())
    o = vc.outcome(vc.body(SD.ServiceDiscover.watch_service), w.disc, w.F, w.L)
    vc.check(w.L in w.disc.watched_services[w.F], "watch_service.registered")
    _registration(vc, w, o, "watch_service", "matching_live_offer_queued_for_the_new_listener_once", "L", "offered", False)
    w.check_frame("watch_service", ("prot.discovery.watched_services*",))


def ob_watch_all_services(vc):
    w = DWorld(vc, register=False, track=())
    o = vc.outcome(vc.body(SD.ServiceDiscover.watch_all_services), w.disc, w.Lall)
    vc.check(w.Lall in w.disc.watcher_all_services, "watch_all_services.registered")
    _registration(vc, w, o, "watch_all_services", "every_live_offer_queued_for_the_new_listener_once", "Lall", "offered", True)
    w.check_frame("watch_all_services", ("prot.discovery.watcher_all_services*",))


def ob_stop_watch(vc):
    """unregistering: the listener is removed (and hears nothing of later changes: the
    notification fan-out only reaches registered listeners, see handle_offer / expiry)"""
    w = DWorld(vc, track=())
    o = vc.outcome(vc.body(SD.ServiceDiscover.stop_watch_service), w.disc, w.F, w.L)
    vc.check(w.L not in w.disc.watched_services[w.F], "stop_watch_service.unregistered")
    _registration(vc, w, o, "stop_watch_service", "matching_live_offer_reported_stopped_to_the_leaving_listener_once", "L", "stopped", False)
    w.check_frame("stop_watch_service", ("prot.discovery.watched_services*",))


def ob_stop_watch_all(vc):
    w = DWorld(vc, track=())
    vc.assume(w.all_registered)
    o = vc.outcome(vc.body(SD.ServiceDiscover.stop_watch_all_services), w.disc, w.Lall)
    vc.check(w.Lall not in w.disc.watcher_all_services, "stop_watch_all_services.unregistered")
    _registration(vc, w, o, "stop_watch_all_services", "every_live_offer_reported_stopped_to_the_leaving_listener_once", "Lall", "stopped", True)
    w.check_frame("stop_watch_all_services", ("prot.discovery.watcher_all_services*",))


def ob_late_registration_overtaken(vc):
    """KNOWN FINDING D10 region: a listener registered while an offer is live is told
    'offered' through the event loop; a stop-offer handled before that queued callback
    runs is reported first"""
    w = DWorld(vc, register=False)
    vc.assume(w.slots[(w.A, w.S)] is not None)
    vc.assume(w.F.matches_service(w.S))
    # watch_service(F, L): registers, and for the matching live offer S from A queues
    # L.service_offered(S, A) on the loop (ob_watch_service)
    w.disc.watched_services[w.F].add(w.L)
    w.loop.call_soon(w.L.service_offered, w.S, w.A)
    w.registered = True
    stop = H.SOMEIPSDEntry(
        sd_type=H.SOMEIPSDEntryType.OfferService,
        service_id=w.offer.service_id,
        instance_id=w.offer.instance_id,
        major_version=w.offer.major_version,
        ttl=0,
        minver_or_counter=w.offer.minver_or_counter,
    )
    w.disc.handle_offer(stop, w.A)
    w.loop.run_ready()
    ev = w.events("L", w.S, w.A)
    live = w.present(w.A, w.S)
    vc.check(not live, "late_registration.stop_offer_withdraws")
    ok = (len(ev) == 0 or ev[len(ev) - 1] == "stopped") and (len(ev) == 0 or ev[0] == "offered")
    vc.check(ok, "late_registration@stop_offer_before_queued_notification.history_alternates_and_is_truthful")


HARNESSES = ST.STORE_OBLIGATIONS + [
    ob_handle_offer,
    ob_expiry,
    ob_reboot_detected,
    ob_connection_lost,
    ob_offer_after_reboot,
    ob_watch_service,
    ob_watch_all_services,
    ob_stop_watch,
    ob_stop_watch_all,
    ob_late_registration_overtaken,
] + SS.MESSAGE_RECEIVED_OBLIGATIONS + SS.DISPATCH_OBLIGATIONS + [SS.ob_check_received_refines]

EXPECT_COVERS = {
    "ob_handle_offer": ["not-watched", "stop-offer", "offer"],
    "ob_reboot_detected": ["entry"],
    "ob_connection_lost": ["entry", "done"],
    "ob_watch_service": ["known-offer"],
    "ob_watch_all_services": ["known-offer"],
    "ob_stop_watch": ["known-offer"],
}
