"""Contracts for the SOME/IP-SD codec in someip.header (entries, options, SD header).

Layouts are written from the SOME/IP-SD specification (PRS_SOMEIPSD_00268 ff.):
  entry (16 bytes): type 8 | index1 8 | index2 8 | #opt1 4, #opt2 4 | service 16 |
                    instance 16 | major 8 | ttl 24 | minor 32   (service entries)
                                                   | reserved 12, counter 4, eventgroup 16
  option: length 16 | type 8 | `length` bytes (the first of them reserved)
  SD message: flags 8 | reserved 24 | len(entries) 32 | entries | len(options) 32 | options
"""
import struct

import someip.header as H
from contracts.spec_header import rd16, rd32, u8, u16, u32

ENTRY_TYPES = (0, 1, 6, 7)
EVENTGROUP_TYPES = (6, 7)


# ---------------------------------------------------------------------------- entries


def entry_unresolved(e):
    return not (e.option_index_1 is None or e.option_index_2 is None or e.num_options_1 is None or e.num_options_2 is None)


def options_resolved(self):
    return not entry_unresolved(self)


def enc_entry(e):
    """wire layout of an entry whose option indexes are assigned; struct.error if a field
    exceeds its width (in particular a run of more than 15 options)"""
    if e.num_options_1 < 0 or e.num_options_1 > 15 or e.num_options_2 < 0 or e.num_options_2 > 15:
        raise struct.error("option count does not fit into 4 bits")
    if e.ttl < 0 or e.ttl > 0xFFFFFF:
        raise struct.error("ttl does not fit into 24 bits")
    return (
        u8(e.sd_type.value)
        + u8(e.option_index_1)
        + u8(e.option_index_2)
        + u8(e.num_options_1 * 16 + e.num_options_2)
        + u16(e.service_id)
        + u16(e.instance_id)
        + u8(e.major_version)
        + u8(e.ttl // 65536)
        + u16(e.ttl % 65536)
        + u32(e.minver_or_counter)
    )


def entry_build(self):
    if not entry_unresolved(self):
        raise ValueError("option indexes must be assigned before building")
    return enc_entry(self)


def entry_parse(cls, buf, num_options):
    if len(buf) < 16:
        raise H.IncompleteReadError("short entry")
    t = buf[0]
    oi1 = buf[1]
    oi2 = buf[2]
    no1 = buf[3] // 16
    no2 = buf[3] % 16
    ttl = buf[9] * 65536 + rd16(buf, 10)
    val = rd32(buf, 12)
    if t not in ENTRY_TYPES:
        raise H.ParseError("entry type")
    if oi1 + no1 > num_options:
        raise H.ParseError("options_1 out of range")
    if oi2 + no2 > num_options:
        raise H.ParseError("options_2 out of range")
    if t in EVENTGROUP_TYPES and val >= 0x100000:
        raise H.ParseError("reserved bits of an eventgroup entry")
    e = H.SOMEIPSDEntry(
        sd_type=H.SOMEIPSDEntryType(t),
        service_id=rd16(buf, 4),
        instance_id=rd16(buf, 6),
        major_version=buf[8],
        ttl=ttl,
        minver_or_counter=val,
        option_index_1=oi1,
        option_index_2=oi2,
        num_options_1=no1,
        num_options_2=no2,
    )
    return e, buf[16:]


def service_minor_version(self):
    if self.sd_type.value not in (0, 1):
        raise TypeError("not a service entry")
    return self.minver_or_counter


def eventgroup_counter(self):
    if self.sd_type.value not in EVENTGROUP_TYPES:
        raise TypeError("not an eventgroup entry")
    return (self.minver_or_counter // 65536) % 16


def eventgroup_id(self):
    if self.sd_type.value not in EVENTGROUP_TYPES:
        raise TypeError("not an eventgroup entry")
    return self.minver_or_counter % 65536


def entry_resolve_options(self, options):
    if not entry_unresolved(self):
        raise ValueError("options already resolved")
    return H.SOMEIPSDEntry(
        sd_type=self.sd_type,
        service_id=self.service_id,
        instance_id=self.instance_id,
        major_version=self.major_version,
        ttl=self.ttl,
        minver_or_counter=self.minver_or_counter,
        options_1=options[self.option_index_1 : self.option_index_1 + self.num_options_1],
        options_2=options[self.option_index_2 : self.option_index_2 + self.num_options_2],
    )


CONTRACTS = {
    "someip.header.SOMEIPSDEntry.options_resolved": options_resolved,
    "someip.header.SOMEIPSDEntry.build": entry_build,
    "someip.header.SOMEIPSDEntry.parse": entry_parse,
    "someip.header.SOMEIPSDEntry.service_minor_version": service_minor_version,
    "someip.header.SOMEIPSDEntry.eventgroup_counter": eventgroup_counter,
    "someip.header.SOMEIPSDEntry.eventgroup_id": eventgroup_id,
    "someip.header.SOMEIPSDEntry.resolve_options": entry_resolve_options,
}

# ---------------------------------------------------------------------------- generators

ENTRY_TYPE_MEMBERS = (
    H.SOMEIPSDEntryType.FindService,
    H.SOMEIPSDEntryType.OfferService,
    H.SOMEIPSDEntryType.Subscribe,
    H.SOMEIPSDEntryType.SubscribeAck,
)


def gen_wire_entry(vc, name, fits=True):
    """entry with assigned option indexes (as build() needs it / parse() returns it)"""
    t = vc.int(name + ".sd_type", 0, 7)
    vc.assume(t in ENTRY_TYPES)
    if fits:
        return H.SOMEIPSDEntry(
            sd_type=H.SOMEIPSDEntryType(t),
            service_id=vc.int(name + ".service_id", 0, 0xFFFF),
            instance_id=vc.int(name + ".instance_id", 0, 0xFFFF),
            major_version=vc.int(name + ".major_version", 0, 0xFF),
            ttl=vc.int(name + ".ttl", 0, 0xFFFFFF),
            minver_or_counter=vc.int(name + ".minver_or_counter", 0, 0xFFFFFFFF),
            option_index_1=vc.int(name + ".option_index_1", 0, 255),
            option_index_2=vc.int(name + ".option_index_2", 0, 255),
            num_options_1=vc.int(name + ".num_options_1", 0, 15),
            num_options_2=vc.int(name + ".num_options_2", 0, 15),
        )
    return H.SOMEIPSDEntry(
        sd_type=H.SOMEIPSDEntryType(t),
        service_id=vc.int(name + ".service_id", -1, 0x10000),
        instance_id=vc.int(name + ".instance_id", -1, 0x10000),
        major_version=vc.int(name + ".major_version", -1, 0x100),
        ttl=vc.int(name + ".ttl", -1, 0x1000001),
        minver_or_counter=vc.int(name + ".minver_or_counter", -1, 0x100000000),
        option_index_1=vc.int(name + ".option_index_1", -1, 256),
        option_index_2=vc.int(name + ".option_index_2", -1, 256),
        num_options_1=vc.int(name + ".num_options_1", -1, 300),
        num_options_2=vc.int(name + ".num_options_2", -1, 300),
    )


# ---------------------------------------------------------------------------- refinement obligations


def ob_entry_build_refines(vc):
    e = gen_wire_entry(vc, "e", fits=False)
    # known finding D1 lives in the region 'a count above 15 that the packing does not reject'
    region = ""
    if e.num_options_1 > 15 or e.num_options_2 > 15:
        region = "@count_above_15"
    vc.same_outcome(vc.outcome(vc.body(H.SOMEIPSDEntry.build), e), vc.outcome(entry_build, e), "SOMEIPSDEntry.build.refines" + region)


def ob_entry_build_resolved_refused(vc):
    from contracts.spec_config import gen_entry

    e = gen_entry(vc, "e", resolved=True)
    vc.same_outcome(vc.outcome(vc.body(H.SOMEIPSDEntry.build), e), vc.outcome(entry_build, e), "SOMEIPSDEntry.build.refines_resolved")


def ob_entry_parse_refines(vc):
    buf = vc.bytes("buf")
    n = vc.int("num_options", 0, None)
    vc.same_outcome(
        vc.outcome(vc.body(H.SOMEIPSDEntry.parse), buf, n), vc.outcome(entry_parse, H.SOMEIPSDEntry, buf, n), "SOMEIPSDEntry.parse.refines"
    )


def ob_entry_properties_refine(vc):
    from contracts.spec_config import gen_entry

    e = gen_entry(vc, "e")
    vc.same_outcome(vc.outcome(vc.body(H.SOMEIPSDEntry.options_resolved.fget), e), vc.outcome(options_resolved, e), "options_resolved.refines")
    vc.same_outcome(
        vc.outcome(vc.body(H.SOMEIPSDEntry.service_minor_version.fget), e), vc.outcome(service_minor_version, e), "service_minor_version.refines"
    )
    vc.same_outcome(vc.outcome(vc.body(H.SOMEIPSDEntry.eventgroup_counter.fget), e), vc.outcome(eventgroup_counter, e), "eventgroup_counter.refines")
    vc.same_outcome(vc.outcome(vc.body(H.SOMEIPSDEntry.eventgroup_id.fget), e), vc.outcome(eventgroup_id, e), "eventgroup_id.refines")


def ob_entry_resolve_options_refines(vc):
    from contracts.spec_config import gen_entry

    e = gen_entry(vc, "e")
    opts = vc.opaque_seq("options", "option")
    o1 = vc.outcome(vc.body(H.SOMEIPSDEntry.resolve_options), e, opts)
    o2 = vc.outcome(entry_resolve_options, e, opts)
    vc.same_outcome(o1, o2, "SOMEIPSDEntry.resolve_options.refines")
    if o1.kind == "ret" and o2.kind == "ret":
        vc.check_eq(o1.value.options_1, o2.value.options_1, "SOMEIPSDEntry.resolve_options.refines.options_1")
        vc.check_eq(o1.value.options_2, o2.value.options_2, "SOMEIPSDEntry.resolve_options.refines.options_2")
        vc.check(o1.value.options_resolved, "SOMEIPSDEntry.resolve_options.result_is_resolved")


def ob_entry_codec_history(vc):
    """the entry codec after earlier use: calls in a row (symbolically two of one kind,
    natively three of any mix of build and parse) each refine the spec for their own
    argument -- nothing is carried from one call to the next.  Natively this is the search
    that decides when the codec is found to keep state between calls (global frame)."""
    kind = vc.choice("kind", ("build", "parse"))
    k = 0
    for name in ("a", "b", "c") if vc.native else ("a", "b"):
        which = vc.choice(name + ".kind", ("build", "parse")) if vc.native else kind
        if which == "build":
            e = gen_wire_entry(vc, name + ".e", fits=True)
            vc.assume(e.num_options_1 <= 15 and e.num_options_2 <= 15)
            vc.same_outcome(vc.outcome(vc.body(H.SOMEIPSDEntry.build), e), vc.outcome(entry_build, e), "history[" + str(k) + "].SOMEIPSDEntry.build.refines")
        else:
            buf = vc.bytes(name + ".buf")
            n = vc.int(name + ".num_options", 0, None)
            vc.same_outcome(
                vc.outcome(vc.body(H.SOMEIPSDEntry.parse), buf, n), vc.outcome(entry_parse, H.SOMEIPSDEntry, buf, n), "history[" + str(k) + "].SOMEIPSDEntry.parse.refines"
            )
        k += 1


ENTRY_REFINES = [
    ob_entry_build_refines,
    ob_entry_codec_history,
    ob_entry_build_resolved_refused,
    ob_entry_parse_refines,
    ob_entry_properties_refine,
    ob_entry_resolve_options_refines,
]


# ---------------------------------------------------------------------------- entry lemmas (C02 d, C20)


def ob_entry_roundtrip(vc):
    """parse(enc(e) + rest, k) == (e, rest) whenever both option runs lie inside the k
    options of the message and an eventgroup entry keeps its 12 reserved bits clear"""
    e = gen_wire_entry(vc, "e")
    rest = vc.bytes("rest")
    k = vc.int("num_options", 0, None)
    vc.assume(e.option_index_1 + e.num_options_1 <= k)
    vc.assume(e.option_index_2 + e.num_options_2 <= k)
    if e.sd_type.value in EVENTGROUP_TYPES:
        vc.assume(e.minver_or_counter < 0x100000)
    o = vc.outcome(H.SOMEIPSDEntry.parse, e.build() + rest, k)
    if o.kind != "ret":
        vc.fail("entry.roundtrip.parse_raised")
    else:
        vc.cover("parsed")
        vc.check_eq(o.value[0], e, "entry.roundtrip.entry")
        vc.check_eq(o.value[1], rest, "entry.roundtrip.rest")


def ob_entry_never_decodes_to_something_else(vc):
    """whatever build() emits for an arbitrary (also unrepresentable) entry either is
    rejected by parse or decodes to an equal entry"""
    e = gen_wire_entry(vc, "e", fits=False)
    k = vc.int("num_options", 0, None)
    b = vc.outcome(e.build)
    region = ""
    if e.num_options_1 > 15 or e.num_options_2 > 15:
        region = "@count_above_15"
    if b.kind == "ret":
        vc.cover("emitted")
        o = vc.outcome(H.SOMEIPSDEntry.parse, b.value, k)
        if o.kind == "ret":
            vc.check_eq(o.value[0], e, "entry.emitted_bytes_decode_to_the_same_entry" + region)


def ob_entry_canonical(vc):
    """C20: a decoded entry re-encodes without error, to the consumed bytes, and decodes
    again to an equal entry with nothing left over; raw indexes and counts survive"""
    buf = vc.bytes("buf")
    k = vc.int("num_options", 0, None)
    o = vc.outcome(H.SOMEIPSDEntry.parse, buf, k)
    if o.kind == "ret":
        vc.cover("decoded")
        e = o.value[0]
        b = vc.outcome(e.build)
        vc.check(b.kind == "ret", "entry.canonical.reencodes_without_error")
        if b.kind == "ret":
            vc.check_eq(b.value + o.value[1], buf, "entry.canonical.same_bytes")
            o2 = vc.outcome(H.SOMEIPSDEntry.parse, b.value, k)
            vc.check(o2.kind == "ret", "entry.canonical.decodes_again")
            if o2.kind == "ret":
                vc.check_eq(o2.value[0], e, "entry.canonical.equal_entry")
                vc.check_eq(len(o2.value[1]), 0, "entry.canonical.nothing_left")
        vc.check_eq(e.option_index_1, buf[1], "entry.retains.option_index_1")
        vc.check_eq(e.option_index_2, buf[2], "entry.retains.option_index_2")
        vc.check_eq(e.num_options_1 * 16 + e.num_options_2, buf[3], "entry.retains.counts")


ENTRY_LEMMAS = [ob_entry_roundtrip, ob_entry_never_decodes_to_something_else, ob_entry_canonical]


# ============================================================================ options
import ipaddress  # noqa: E402

IPV4_TYPES = (0x04, 0x14, 0x24)
IPV6_TYPES = (0x06, 0x16, 0x26)
OPTION_CLASS = {
    0x01: H.SOMEIPSDConfigOption,
    0x02: H.SOMEIPSDLoadBalancingOption,
    0x04: H.IPv4EndpointOption,
    0x14: H.IPv4MulticastOption,
    0x24: H.IPv4SDEndpointOption,
    0x06: H.IPv6EndpointOption,
    0x16: H.IPv6MulticastOption,
    0x26: H.IPv6SDEndpointOption,
}
KNOWN_L4 = (6, 17)  # TCP, UDP (IANA protocol numbers)


def enc_option(type_b, body):
    """option = length 16 | type 8 | body, where length counts the body (reserved byte included)"""
    return u16(len(body)) + u8(type_b) + body


def build_option(self, type_b, buf):
    return enc_option(type_b, buf)


def unknown_build(self):
    return enc_option(self.type, self.payload)


def loadbal_build(self):
    return enc_option(0x02, u8(0) + u16(self.priority) + u16(self.weight))


def loadbal_parse_option(cls, buf):
    if len(buf) != 5:
        raise H.ParseError("load balancing option length")
    return cls(priority=rd16(buf, 1), weight=rd16(buf, 3))


def ip_build(self):
    return enc_option(self.type, u8(0) + self.address.packed + u8(0) + u8(self.l4proto) + u16(self.port))


def ip_parse_option(cls, buf):
    if cls.type in IPV4_TYPES:
        width = 4
    else:
        width = 16
    if len(buf) != width + 5:
        raise H.ParseError("ip option length")
    if width == 4:
        addr = ipaddress.IPv4Address(buf[1:5])
    else:
        addr = ipaddress.IPv6Address(buf[1:17])
    proto_b = buf[width + 2]
    if proto_b in KNOWN_L4:
        proto = H.L4Protocols(proto_b)
    else:
        proto = proto_b
    return cls(address=addr, l4proto=proto, port=rd16(buf, width + 3))


def option_parse(cls, buf):
    if len(buf) < 3:
        raise H.IncompleteReadError("short option header")
    n = rd16(buf, 0)
    t = buf[2]
    if len(buf) - 3 < n:
        raise H.ParseError("option data too short")
    body = buf[3 : 3 + n]
    rest = buf[3 + n :]
    if t == 0x01:
        return H.SOMEIPSDConfigOption.parse_option(body), rest
    if t == 0x02:
        return H.SOMEIPSDLoadBalancingOption.parse_option(body), rest
    if t in IPV4_TYPES or t in IPV6_TYPES:
        return OPTION_CLASS[t].parse_option(body), rest
    return H.SOMEIPSDUnknownOption(type=t, payload=body), rest


CONTRACTS.update(
    {
        "someip.header.SOMEIPSDOption.build_option": build_option,
        "someip.header.SOMEIPSDOption.parse": option_parse,
        "someip.header.SOMEIPSDUnknownOption.build": unknown_build,
        "someip.header.SOMEIPSDLoadBalancingOption.build": loadbal_build,
        "someip.header.SOMEIPSDLoadBalancingOption.parse_option": loadbal_parse_option,
        "someip.header.AbstractIPOption.build": ip_build,
        "someip.header.AbstractIPOption.parse_option": ip_parse_option,
    }
)

IP_OPTION_CLASSES = (
    H.IPv4EndpointOption,
    H.IPv4MulticastOption,
    H.IPv4SDEndpointOption,
    H.IPv6EndpointOption,
    H.IPv6MulticastOption,
    H.IPv6SDEndpointOption,
)


def gen_l4proto(vc, name, fits=True):
    """member of L4Protocols or a raw protocol number"""
    if vc.choice(name + ".is_member", (True, False)):
        return vc.choice(name + ".member", (H.L4Protocols.TCP, H.L4Protocols.UDP))
    v = vc.int(name, 0 if fits else -1, 255 if fits else 256)
    if fits:
        vc.assume(v not in KNOWN_L4)
    return v


def gen_ip_option(vc, name, fits=True):
    cls = vc.choice(name + ".class", IP_OPTION_CLASSES)
    if cls.type in IPV4_TYPES:
        addr = ipaddress.IPv4Address(vc.bytes_fixed(name + ".address", 4))
    else:
        addr = ipaddress.IPv6Address(vc.bytes_fixed(name + ".address", 16))
    return cls(address=addr, l4proto=gen_l4proto(vc, name + ".l4proto", fits), port=vc.int(name + ".port", 0 if fits else -1, 0xFFFF if fits else 0x10000))


def gen_loadbal_option(vc, name, fits=True):
    lo = 0 if fits else -1
    hi = 0xFFFF if fits else 0x10000
    return H.SOMEIPSDLoadBalancingOption(priority=vc.int(name + ".priority", lo, hi), weight=vc.int(name + ".weight", lo, hi))


def gen_unknown_option(vc, name, fits=True):
    t = vc.int(name + ".type", 0 if fits else -1, 0xFF if fits else 0x100)
    if fits:
        vc.assume(t not in OPTION_CLASS)
    payload = vc.bytes(name + ".payload")
    if fits:
        vc.assume(len(payload) <= 0xFFFF)
    return H.SOMEIPSDUnknownOption(type=t, payload=payload)


def ob_build_option_refines(vc):
    o = gen_loadbal_option(vc, "o")
    t = vc.int("type_b", -1, 256)
    buf = vc.bytes("buf")
    vc.same_outcome(vc.outcome(vc.body(H.SOMEIPSDOption.build_option), o, t, buf), vc.outcome(build_option, o, t, buf), "build_option.refines")


def ob_unknown_build_refines(vc):
    o = gen_unknown_option(vc, "o", fits=False)
    vc.same_outcome(vc.outcome(vc.body(H.SOMEIPSDUnknownOption.build), o), vc.outcome(unknown_build, o), "SOMEIPSDUnknownOption.build.refines")


def ob_loadbal_refines(vc):
    o = gen_loadbal_option(vc, "o", fits=False)
    vc.same_outcome(
        vc.outcome(vc.body(H.SOMEIPSDLoadBalancingOption.build), o), vc.outcome(loadbal_build, o), "SOMEIPSDLoadBalancingOption.build.refines"
    )
    buf = vc.bytes("buf")
    vc.same_outcome(
        vc.outcome(vc.body(H.SOMEIPSDLoadBalancingOption.parse_option), buf),
        vc.outcome(loadbal_parse_option, H.SOMEIPSDLoadBalancingOption, buf),
        "SOMEIPSDLoadBalancingOption.parse_option.refines",
    )


def ob_ip_build_refines(vc):
    o = gen_ip_option(vc, "o", fits=False)
    vc.same_outcome(vc.outcome(vc.body(H.AbstractIPOption.build), o), vc.outcome(ip_build, o), "AbstractIPOption.build.refines")


def ob_ip_parse_option_refines(vc):
    cls = vc.choice("class", IP_OPTION_CLASSES)
    buf = vc.bytes("buf")
    vc.same_outcome(
        vc.outcome(vc.body(cls.parse_option), buf), vc.outcome(ip_parse_option, cls, buf), "AbstractIPOption.parse_option.refines"
    )


def ob_option_parse_refines(vc):
    buf = vc.bytes("buf")
    vc.same_outcome(vc.outcome(vc.body(H.SOMEIPSDOption.parse), buf), vc.outcome(option_parse, H.SOMEIPSDOption, buf), "SOMEIPSDOption.parse.refines")


OPTION_REFINES = [
    ob_build_option_refines,
    ob_unknown_build_refines,
    ob_loadbal_refines,
    ob_ip_build_refines,
    ob_ip_parse_option_refines,
    ob_option_parse_refines,
]


def gen_fixed_option(vc, name):
    k = vc.choice(name + ".kind", ("ip", "loadbal", "unknown"))
    if k == "ip":
        return gen_ip_option(vc, name)
    if k == "loadbal":
        return gen_loadbal_option(vc, name)
    return gen_unknown_option(vc, name)


def ob_option_roundtrip(vc):
    """parse(build(o) + rest) == (o, rest) for every fixed-layout option kind and unknown types"""
    o = gen_fixed_option(vc, "o")
    rest = vc.bytes("rest")
    r = vc.outcome(H.SOMEIPSDOption.parse, o.build() + rest)
    if r.kind != "ret":
        vc.fail("option.roundtrip.parse_raised")
    else:
        vc.cover("parsed")
        vc.check_eq(r.value[0], o, "option.roundtrip.option")
        vc.check(type(r.value[0]) is type(o), "option.roundtrip.same_class")
        vc.check_eq(r.value[1], rest, "option.roundtrip.rest")


def ob_option_layout(vc):
    """the emitted bytes follow the SOME/IP-SD option layout as read by an independent decoder"""
    o = gen_fixed_option(vc, "o")
    b = o.build()
    vc.check_eq(b[0] * 256 + b[1], len(b) - 3, "option.layout.length_counts_bytes_after_type")
    vc.check_eq(b[2], o.type, "option.layout.type@2")
    if isinstance(o, H.AbstractIPOption):
        vc.cover("ip")
        w = len(o.address.packed)
        vc.check_eq(b[3], 0, "option.layout.ip.reserved@3")
        vc.check_eq(b[4 : 4 + w], o.address.packed, "option.layout.ip.address@4")
        vc.check_eq(b[4 + w], 0, "option.layout.ip.reserved_after_address")
        vc.check_eq(b[5 + w], o.l4proto, "option.layout.ip.l4proto")
        vc.check_eq(b[6 + w] * 256 + b[7 + w], o.port, "option.layout.ip.port_big_endian")
        vc.check_eq(len(b), 12 if w == 4 else 24, "option.layout.ip.total_length")
    elif isinstance(o, H.SOMEIPSDLoadBalancingOption):
        vc.check_eq(len(b), 8, "option.layout.loadbal.total_length")
        vc.check_eq(b[3], 0, "option.layout.loadbal.reserved@3")
        vc.check_eq(b[4] * 256 + b[5], o.priority, "option.layout.loadbal.priority@4")
        vc.check_eq(b[6] * 256 + b[7], o.weight, "option.layout.loadbal.weight@6")
    else:
        vc.check_eq(b[3:], o.payload, "option.layout.unknown.payload@3")


def ob_option_canonical(vc):
    """C20 for options other than the configuration option: decode, re-encode, decode"""
    buf = vc.bytes("buf")
    vc.assume(len(buf) >= 3)
    vc.assume(buf[2] != 0x01)
    r = vc.outcome(H.SOMEIPSDOption.parse, buf)
    if r.kind == "ret":
        vc.cover("decoded")
        o = r.value[0]
        b = vc.outcome(o.build)
        vc.check(b.kind == "ret", "option.canonical.reencodes_without_error")
        if b.kind == "ret":
            r2 = vc.outcome(H.SOMEIPSDOption.parse, b.value)
            vc.check(r2.kind == "ret", "option.canonical.decodes_again")
            if r2.kind == "ret":
                vc.check_eq(r2.value[0], o, "option.canonical.equal_option")
                vc.check_eq(len(r2.value[1]), 0, "option.canonical.nothing_left")
        if isinstance(o, H.SOMEIPSDUnknownOption):
            vc.cover("unknown")
            vc.check_eq(o.type, buf[2], "option.retains.unknown_type")
            vc.check_eq(o.payload, buf[3 : 3 + buf[0] * 256 + buf[1]], "option.retains.unknown_payload")
        if isinstance(o, H.AbstractIPOption):
            w = len(o.address.packed)
            vc.check_eq(o.l4proto, buf[w + 5], "option.retains.raw_l4proto")


OPTION_LEMMAS = [ob_option_roundtrip, ob_option_layout, ob_option_canonical]


# ============================================================================ configuration option


def enc_config_item(k, v):
    """one configuration string: length byte, key, and '=' value if there is a value"""
    if v is None:
        body = k.encode("ascii")
    else:
        body = k.encode("ascii") + b"=" + v.encode("ascii")
    return bytes([len(body)]) + body


def config_build(self):
    """reserved byte, the configuration strings, terminating zero length"""
    buf = b"\x00"
    for k, v in self.configs:
        buf = buf + enc_config_item(k, v)
    return enc_option(0x01, buf + b"\x00")


def config_item_step(nextlen, b):
    """consume the configuration string of length nextlen (!= 0) at the head of b:
    returns (item, length byte of the next string, bytes after that length byte).
    The string is split at its FIRST '=' (a value may itself contain '=')."""
    if len(b) < nextlen + 1:
        raise H.ParseError("configuration string exceeds the option")
    s = b[:nextlen]
    i = s.find(b"=")
    if i == -1:
        item = (s.decode("ascii"), None)
    else:
        item = (s[:i].decode("ascii"), s[i + 1 :].decode("ascii"))
    return item, b[nextlen], b[nextlen + 1 :]


def config_parse_option(cls, buf):
    if len(buf) < 2:
        raise H.ParseError("configuration option too short")
    nextlen = buf[1]
    b = buf[2:]
    configs = []
    while nextlen != 0:
        item, nextlen, b = config_item_step(nextlen, b)
        configs.append(item)
    return cls(configs=tuple(configs))


CONTRACTS.update(
    {
        "someip.header.SOMEIPSDConfigOption.build": config_build,
        "someip.header.SOMEIPSDConfigOption.parse_option": config_parse_option,
    }
)


def _gen_byte(vc, name):
    return vc.int(name, 0, 255)


def _gen_bytes(vc, name):
    return vc.bytes(name)


def _gen_bytearray(vc, name):
    return bytearray(vc.bytes(name))


def _gen_symlist(vc, name):
    return vc.sym_list(name)


def _cfgp_init(vc, v):
    vc.stash("cfgp.init", v)


def _cfgp_head(vc, v, entering):
    vc.stash("cfgp.head", v)
    vc.stash("cfgp.entering", entering)


def _cfgp_post(vc, v):
    vc.stash("cfgp.post", v)


def _cfgp_variant(vc, v):
    return len(v["b"])


def _cfgb_init(vc, v):
    vc.stash("cfgb.init", v)


def _cfgb_head(vc, v, entering):
    vc.stash("cfgb.head", v)
    vc.stash("cfgb.entering", entering)


def _cfgb_post(vc, v):
    vc.stash("cfgb.post", v)


LOOPS = {
    ("someip.header.SOMEIPSDConfigOption.parse_option", 0): {
        "havoc": {"nextlen": _gen_byte, "b": _gen_bytes, "configs": _gen_symlist},
        "init": _cfgp_init,
        "head": _cfgp_head,
        "post": _cfgp_post,
        "variant": _cfgp_variant,
    },
    ("someip.header.SOMEIPSDConfigOption.build", 0): {
        "havoc": {"buf": _gen_bytearray},
        "init": _cfgb_init,
        "head": _cfgb_head,
        "post": _cfgb_post,
    },
}


def ob_config_parse_option_refines(vc):
    """SOMEIPSDConfigOption.parse_option against config_parse_option, loop by loop contract:
    (init) the loop starts with nextlen = buf[1], b = buf[2:], no items;
    (step) an arbitrary iteration consumes exactly config_item_step(nextlen, b) and appends its item;
    (exit) with nextlen == 0 the result holds exactly the accumulated items.
    By induction on the number of strings the real loop computes config_parse_option."""
    buf = vc.bytes("buf", hint="config")
    o = vc.outcome(vc.body(H.SOMEIPSDConfigOption.parse_option), buf)
    if vc.native:
        vc.same_outcome(o, vc.outcome(config_parse_option, H.SOMEIPSDConfigOption, buf), "SOMEIPSDConfigOption.parse_option.refines_whole")
        return
    init = vc.stashed("cfgp.init")
    if init is None:
        vc.cover("too-short")
        vc.check(len(buf) < 2 and vc.is_exc(o, H.ParseError), "SOMEIPSDConfigOption.parse_option.short_buffer_is_parse_error")
        return
    vc.check(len(buf) >= 2, "SOMEIPSDConfigOption.parse_option.loop_reached_only_with_two_bytes")
    vc.check_eq(init["nextlen"], buf[1], "SOMEIPSDConfigOption.parse_option.init.nextlen")
    vc.check_eq(init["b"], buf[2:], "SOMEIPSDConfigOption.parse_option.init.b")
    vc.check_eq(len(init["configs"]), 0, "SOMEIPSDConfigOption.parse_option.init.no_items")
    head = vc.stashed("cfgp.head")
    if vc.stashed("cfgp.entering"):
        exp = vc.outcome(config_item_step, head["nextlen"], head["b"])
        if exp.kind == "ret":
            vc.cover("item")
            vc.check(o.kind == "cut", "SOMEIPSDConfigOption.parse_option.step.continues")
            if o.kind == "cut":
                post = vc.stashed("cfgp.post")
                vc.check_eq(vc.list_tail(post["configs"]), [exp.value[0]], "SOMEIPSDConfigOption.parse_option.step.appends_the_item")
                vc.check_eq(post["nextlen"], exp.value[1], "SOMEIPSDConfigOption.parse_option.step.next_length")
                vc.check_eq(post["b"], exp.value[2], "SOMEIPSDConfigOption.parse_option.step.rest")
        else:
            vc.cover("item-error")
            vc.same_outcome(o, exp, "SOMEIPSDConfigOption.parse_option.step.error")
    else:
        vc.cover("exit")
        vc.check_eq(head["nextlen"], 0, "SOMEIPSDConfigOption.parse_option.exit.on_zero_length")
        vc.check(o.kind == "ret", "SOMEIPSDConfigOption.parse_option.exit.returns")
        if o.kind == "ret":
            vc.check_eq(o.value, H.SOMEIPSDConfigOption(configs=tuple(head["configs"])), "SOMEIPSDConfigOption.parse_option.exit.result")


def gen_config_item(vc, name):
    """(key, value or None): ASCII text; fits: key non-empty without '=', string <= 255 bytes"""
    k = vc.text(name + ".key", minlen=1, exclude=61)
    if vc.choice(name + ".has_value", (True, False)):
        v = vc.text(name + ".value")
        return (k, v)
    return (k, None)


def gen_config_option(vc, name):
    return H.SOMEIPSDConfigOption(configs=vc.seq(name + ".configs", gen_config_item))


def ob_config_build_refines(vc):
    """SOMEIPSDConfigOption.build against config_build: (init) buf = [0]; (step) an arbitrary
    item appends exactly enc_config_item(k, v) or fails like it; (exit) the result is the
    option header for buf + [0]"""
    o_ = gen_config_option(vc, "o")
    r = vc.outcome(vc.body(H.SOMEIPSDConfigOption.build), o_)
    if vc.native:
        vc.same_outcome(r, vc.outcome(config_build, o_), "SOMEIPSDConfigOption.build.refines_whole")
        return
    init = vc.stashed("cfgb.init")
    vc.check_eq(init["buf"], b"\x00", "SOMEIPSDConfigOption.build.init.reserved_byte")
    head = vc.stashed("cfgb.head")
    if vc.stashed("cfgb.entering"):
        exp = vc.outcome(enc_config_item, head["k"], head["v"])
        if exp.kind == "ret":
            vc.cover("item")
            vc.check(r.kind == "cut", "SOMEIPSDConfigOption.build.step.continues")
            if r.kind == "cut":
                vc.check_eq(vc.stashed("cfgb.post")["buf"], head["buf"] + exp.value, "SOMEIPSDConfigOption.build.step.appends_the_string")
        else:
            vc.cover("item-error")
            vc.same_outcome(r, exp, "SOMEIPSDConfigOption.build.step.error")
    else:
        vc.cover("exit")
        vc.same_outcome(r, vc.outcome(enc_option, 0x01, head["buf"] + b"\x00"), "SOMEIPSDConfigOption.build.exit.result")


def ob_config_item_roundtrip(vc):
    """step lemma of the configuration round trip: a string built from (k, v) followed by
    anything is consumed as exactly (k, v); by induction over the strings of an option and
    the zero terminator, parse_option(build(o)) == o"""
    item = gen_config_item(vc, "item")
    tail = vc.bytes("tail", minlen=1)
    enc = vc.outcome(enc_config_item, item[0], item[1])
    if enc.kind == "ret":
        vc.cover("encoded")
        b = enc.value + tail
        r = vc.outcome(config_item_step, b[0], b[1:])
        if r.kind != "ret":
            vc.fail("config.item_roundtrip.step_raised")
        else:
            vc.check_eq(r.value[0], item, "config.item_roundtrip.item")
            vc.check_eq(r.value[1], tail[0], "config.item_roundtrip.next_length")
            vc.check_eq(r.value[2], tail[1:], "config.item_roundtrip.rest")
        vc.check(b[0] != 0, "config.item_roundtrip.length_byte_is_not_the_terminator")


CONFIG_OBLIGATIONS = [ob_config_parse_option_refines, ob_config_build_refines, ob_config_item_roundtrip]


def _abs_config_parsed(vc, name, cls, buf):
    return H.SOMEIPSDConfigOption(configs=vc.opaque_seq(name + ".configs", "configitem"))


def _abs_bytes(vc, name, *args):
    return vc.bytes(name)


# spec functions that loop over symbolic data: uninterpreted (deterministic) for callers;
# their own definition is connected to the real code by the loop-contract obligations above
ABSTRACT = {
    config_parse_option: {"gen": _abs_config_parsed, "raises": (H.ParseError, UnicodeDecodeError)},
    config_build: {"gen": _abs_bytes, "raises": (struct.error, ValueError, UnicodeEncodeError)},
}


# ============================================================================ SD message


def parse_all_options(b):
    out = []
    while b:
        o, b = option_parse(H.SOMEIPSDOption, b)
        out.append(o)
    return out


def parse_all_entries(b, num_options):
    out = []
    while b:
        e, b = entry_parse(H.SOMEIPSDEntry, b, num_options)
        out.append(e)
    return out


def sd_split(buf):
    """flags byte, entries array, options array and the rest, as the length fields say"""
    if len(buf) < 12:
        raise H.ParseError("short SD header")
    el = rd32(buf, 4)
    if len(buf) - 8 < el + 4:
        raise H.ParseError("entries length too big")
    ol = rd32(buf, 8 + el)
    if len(buf) - 12 - el < ol:
        raise H.ParseError("options length too big")
    return buf[0], buf[8 : 8 + el], buf[12 + el : 12 + el + ol], buf[12 + el + ol :]


def sd_header_from(flags, entries, options):
    return H.SOMEIPSDHeader(
        flag_reboot=flags >= 128,
        flag_unicast=(flags // 64) % 2 == 1,
        flags_unknown=flags % 64,
        entries=tuple(entries),
        options=tuple(options),
    )


def sd_parse(cls, buf):
    flags, entries_buf, options_buf, rest = sd_split(buf)
    options = parse_all_options(options_buf)
    entries = parse_all_entries(entries_buf, len(options))
    return sd_header_from(flags, entries, options), rest


def sd_flags_byte(h):
    """reboot 0x80, unicast 0x40, the six undefined bits as stored"""
    return (128 if h.flag_reboot else 0) + (64 if h.flag_unicast else 0) + h.flags_unknown


def enc_sd(h):
    entries_buf = b"".join(e.build() for e in h.entries)
    options_buf = b"".join(o.build() for o in h.options)
    return u8(sd_flags_byte(h)) + b"\x00\x00\x00" + u32(len(entries_buf)) + entries_buf + u32(len(options_buf)) + options_buf


def sd_build(self):
    return enc_sd(self)


CONTRACTS.update(
    {
        "someip.header.SOMEIPSDHeader.parse": sd_parse,
        "someip.header.SOMEIPSDHeader.build": sd_build,
    }
)


def _abs_sd_parsed(vc, name, cls, buf):
    h = H.SOMEIPSDHeader(
        entries=vc.opaque_seq(name + ".entries", "entry"),
        options=vc.opaque_seq(name + ".options", "option"),
        flag_reboot=vc.bool(name + ".flag_reboot"),
        flag_unicast=vc.bool(name + ".flag_unicast"),
        flags_unknown=vc.int(name + ".flags_unknown", 0, 63),
    )
    return h, vc.bytes(name + ".rest")


ABSTRACT.update(
    {
        sd_parse: {"gen": _abs_sd_parsed, "raises": (H.ParseError, H.IncompleteReadError, UnicodeDecodeError)},
    }
)


def _sdp_o_init(vc, v):
    vc.stash("sdp.o.init", v)


def _sdp_o_head(vc, v, entering):
    vc.stash("sdp.o.head", v)
    vc.stash("sdp.o.entering", entering)


def _sdp_o_post(vc, v):
    vc.stash("sdp.o.post", v)


def _sdp_o_variant(vc, v):
    return len(v["options_buffer"])


def _sdp_e_init(vc, v):
    vc.stash("sdp.e.init", v)


def _sdp_e_head(vc, v, entering):
    vc.stash("sdp.e.head", v)
    vc.stash("sdp.e.entering", entering)


def _sdp_e_post(vc, v):
    vc.stash("sdp.e.post", v)


def _sdp_e_variant(vc, v):
    return len(v["entries_buffer"])


LOOPS.update(
    {
        ("someip.header.SOMEIPSDHeader.parse", 0): {
            "havoc": {"options_buffer": _gen_bytes, "options": _gen_symlist},
            "init": _sdp_o_init,
            "head": _sdp_o_head,
            "post": _sdp_o_post,
            "variant": _sdp_o_variant,
        },
        ("someip.header.SOMEIPSDHeader.parse", 1): {
            "havoc": {"entries_buffer": _gen_bytes, "entries": _gen_symlist},
            "init": _sdp_e_init,
            "head": _sdp_e_head,
            "post": _sdp_e_post,
            "variant": _sdp_e_variant,
        },
    }
)


def ob_sd_parse_refines(vc):
    """SOMEIPSDHeader.parse against sd_parse: the split of the buffer by the two length
    fields, then for each of the two loops (init) it starts on exactly its array with no
    element, (step) an arbitrary iteration consumes exactly one option / entry as the
    element contract says (entries see the final number of options), strictly shrinking
    the buffer, (exit) it ends only on an empty buffer; the result carries the flag bits,
    all elements in order and the rest."""
    buf = vc.bytes("buf", hint="sd")
    o = vc.outcome(vc.body(H.SOMEIPSDHeader.parse), buf)
    if vc.native:
        vc.same_outcome(o, vc.outcome(sd_parse, H.SOMEIPSDHeader, buf), "SOMEIPSDHeader.parse.refines_whole")
        return
    split = vc.outcome(sd_split, buf)
    oinit = vc.stashed("sdp.o.init")
    if split.kind == "raise":
        vc.cover("bad-lengths")
        vc.check(oinit is None, "SOMEIPSDHeader.parse.no_loop_on_bad_lengths")
        vc.same_outcome(o, split, "SOMEIPSDHeader.parse.split.error")
        return
    flags, entries_buf, options_buf, rest = split.value
    vc.check(oinit is not None, "SOMEIPSDHeader.parse.reaches_the_options_loop")
    if oinit is None:
        return
    vc.check_eq(oinit["options_buffer"], options_buf, "SOMEIPSDHeader.parse.options.init.buffer")
    vc.check_eq(len(oinit["options"]), 0, "SOMEIPSDHeader.parse.options.init.empty")
    vc.check_eq(oinit["entries_buffer"], entries_buf, "SOMEIPSDHeader.parse.entries_buffer_is_the_entries_array")
    ohead = vc.stashed("sdp.o.head")
    if vc.stashed("sdp.o.entering"):
        exp = vc.outcome(option_parse, H.SOMEIPSDOption, ohead["options_buffer"])
        if exp.kind == "ret":
            vc.cover("option")
            vc.check(o.kind == "cut", "SOMEIPSDHeader.parse.options.step.continues")
            if o.kind == "cut":
                post = vc.stashed("sdp.o.post")
                vc.check_eq(vc.list_tail(post["options"]), [exp.value[0]], "SOMEIPSDHeader.parse.options.step.appends_the_option")
                vc.check_eq(post["options_buffer"], exp.value[1], "SOMEIPSDHeader.parse.options.step.rest")
        else:
            vc.cover("option-error")
            vc.same_outcome(o, exp, "SOMEIPSDHeader.parse.options.step.error")
        return
    vc.check_eq(len(ohead["options_buffer"]), 0, "SOMEIPSDHeader.parse.options.exit.on_empty_buffer")
    einit = vc.stashed("sdp.e.init")
    vc.check(einit is not None, "SOMEIPSDHeader.parse.reaches_the_entries_loop")
    if einit is None:
        return
    vc.check_eq(einit["entries_buffer"], entries_buf, "SOMEIPSDHeader.parse.entries.init.buffer")
    vc.check_eq(len(einit["entries"]), 0, "SOMEIPSDHeader.parse.entries.init.empty")
    vc.check_eq(einit["options"], ohead["options"], "SOMEIPSDHeader.parse.entries.init.options_complete")
    ehead = vc.stashed("sdp.e.head")
    if vc.stashed("sdp.e.entering"):
        exp = vc.outcome(entry_parse, H.SOMEIPSDEntry, ehead["entries_buffer"], len(ohead["options"]))
        if exp.kind == "ret":
            vc.cover("entry")
            vc.check(o.kind == "cut", "SOMEIPSDHeader.parse.entries.step.continues")
            if o.kind == "cut":
                post = vc.stashed("sdp.e.post")
                vc.check_eq(vc.list_tail(post["entries"]), [exp.value[0]], "SOMEIPSDHeader.parse.entries.step.appends_the_entry")
                vc.check_eq(post["entries_buffer"], exp.value[1], "SOMEIPSDHeader.parse.entries.step.rest")
                vc.check_eq(post["options"], ohead["options"], "SOMEIPSDHeader.parse.entries.step.options_untouched")
        else:
            vc.cover("entry-error")
            vc.same_outcome(o, exp, "SOMEIPSDHeader.parse.entries.step.error")
        return
    vc.cover("exit")
    vc.check_eq(len(ehead["entries_buffer"]), 0, "SOMEIPSDHeader.parse.entries.exit.on_empty_buffer")
    vc.check(o.kind == "ret", "SOMEIPSDHeader.parse.exit.returns")
    if o.kind == "ret":
        exp_h = sd_header_from(flags, ehead["entries"], ohead["options"])
        vc.check_eq(o.value[0], exp_h, "SOMEIPSDHeader.parse.exit.header")
        vc.check_eq(o.value[1], rest, "SOMEIPSDHeader.parse.exit.rest")


SD_OBLIGATIONS = [ob_sd_parse_refines]


def gen_sd_header(vc, name):
    """SD message as build() needs it: entries with assigned indexes, opaque options"""
    return H.SOMEIPSDHeader(
        entries=vc.seq(name + ".entries", gen_wire_entry),
        options=vc.opaque_seq(name + ".options", "option"),
        flag_reboot=vc.bool(name + ".flag_reboot"),
        flag_unicast=vc.bool(name + ".flag_unicast"),
        flags_unknown=vc.int(name + ".flags_unknown", 0, 63),
    )


def ob_sd_build_refines(vc):
    h = gen_sd_header(vc, "h")
    vc.same_outcome(vc.outcome(vc.body(H.SOMEIPSDHeader.build), h), vc.outcome(sd_build, h), "SOMEIPSDHeader.build.refines")


def ob_sd_layout(vc):
    """SD layout as read by an independent decoder: flags, three reserved bytes, the two
    length-prefixed arrays in the order entries, options"""
    h = gen_sd_header(vc, "h")
    eb = b"".join(e.build() for e in h.entries)
    ob = b"".join(o.build() for o in h.options)
    vc.assume(len(eb) <= 0xFFFFFFFF)
    vc.assume(len(ob) <= 0xFFFFFFFF)
    b = enc_sd(h)
    vc.check_eq(b[0] // 128, 1 if h.flag_reboot else 0, "sd.layout.reboot_flag_is_bit7")
    vc.check_eq((b[0] // 64) % 2, 1 if h.flag_unicast else 0, "sd.layout.unicast_flag_is_bit6")
    vc.check_eq(b[0] % 64, h.flags_unknown, "sd.layout.undefined_flag_bits")
    vc.check_eq(b[1:4], b"\x00\x00\x00", "sd.layout.reserved")
    vc.check_eq(((b[4] * 256 + b[5]) * 256 + b[6]) * 256 + b[7], len(eb), "sd.layout.entries_length@4")
    vc.check_eq(b[8 : 8 + len(eb)], eb, "sd.layout.entries@8")
    n = 8 + len(eb)
    vc.check_eq(((b[n] * 256 + b[n + 1]) * 256 + b[n + 2]) * 256 + b[n + 3], len(ob), "sd.layout.options_length")
    vc.check_eq(b[n + 4 :], ob, "sd.layout.options")
    # and the decoder's split recovers exactly these arrays
    rest = vc.bytes("rest")
    sp = vc.outcome(sd_split, b + rest)
    vc.cover("fits")
    vc.check(sp.kind == "ret", "sd.split_of_built_message.succeeds")
    if sp.kind == "ret":
        vc.check_eq(sp.value[0], b[0], "sd.split_of_built_message.flags")
        vc.check_eq(sp.value[1], eb, "sd.split_of_built_message.entries_array")
        vc.check_eq(sp.value[2], ob, "sd.split_of_built_message.options_array")
        vc.check_eq(sp.value[3], rest, "sd.split_of_built_message.rest")


SD_OBLIGATIONS = [ob_sd_parse_refines, ob_sd_build_refines, ob_sd_layout]


# ============================================================================ _find (option sharing)


def _gen_int(vc, name):
    return vc.int(name)


def _find_outer_inv(vc, v):
    return v["i"] >= v["n"] - 1


def _find_outer_variant(vc, v):
    return v["h"] - v["i"]


def _find_inner_inv(vc, v):
    """the last $k elements of the window ending at i match the last $k needle elements"""
    hay, nd, i, n = v["haystack"], v["needle"], v["i"], v["n"]
    # stated over the haystack position p (a plain bound variable under hay[.]), so that the
    # solver's E-matching instantiates it from any ground term hay[t]
    return vc.forall(i - v["$k"] + 1, i + 1, lambda p: hay[p] == nd[p - (i - n + 1)])


def _find_inner_head(vc, v, entering):
    """at the exit of the inner loop the invariant is instantiated at the harness' Skolem
    position (checked, not assumed: it is an instance of the invariant) so that the
    occurrence claim does not depend on the solver's quantifier heuristics"""
    if not entering:
        s = vc.stashed("find.skolem")
        if s is not None:
            hay, nd, i, n = v["haystack"], v["needle"], v["i"], v["n"]
            p = i - n + 1 + s
            vc.check(vc.raw(lambda: not (i - v["$k"] < p and p <= i) or hay[p] == nd[p - (i - n + 1)]), "_find.loop1.inv_instance")


LOOPS.update(
    {
        ("someip.header._find", 0): {"havoc": {"i": _gen_int}, "inv": _find_outer_inv, "variant": _find_outer_variant, "may_exit": True},  # returns at the first occurrence
        ("someip.header._find", 1): {"inv": _find_inner_inv, "head": _find_inner_head, "keep": ["i"], "may_exit": True},  # breaks at the first mismatch
    }
)


def ob_find_sound(vc):
    """_find(haystack, needle) for sequences of arbitrary length over arbitrary elements:
    no exception (every index is in range), it terminates (outer variant h - i; every skip
    is at least 1), and a result other than None is the start of an occurrence:
    0 <= r, r + len(needle) <= len(haystack), haystack[r : r + len(needle)] == needle."""
    hay = vc.opaque_seq("haystack", "elem")
    nd = vc.opaque_seq("needle", "elem")
    s = vc.int("position", 0, None)  # Skolem position inside the needle
    vc.stash("find.skolem", s)
    o = vc.outcome(vc.body(H._find), hay, nd)
    vc.check(o.kind != "raise", "_find.no_exception")
    if o.kind == "ret" and o.value is not None:
        vc.cover("found")
        r = o.value
        vc.check(r >= 0 and r + len(nd) <= len(hay), "_find.sound.window_inside_haystack")
        if s < len(nd):
            vc.check(hay[r + s] == nd[s], "_find.sound.occurrence")
    if o.kind == "ret" and o.value is None:
        vc.cover("not-found")


FIND_OBLIGATIONS = [ob_find_sound]


def find_spec(haystack, needle):
    """carrier of _find's contract (a reference search; _find need not return the first
    occurrence, and callers rely on soundness only)"""
    h, n = len(haystack), len(needle)
    for s in range(0, h - n + 1):
        if all(haystack[s + m] == needle[m] for m in range(n)):
            return s
    return None


def _find_post(vc, name, haystack, needle):
    """what callers may assume about _find (proved by ob_find_sound): None, or the start
    of an occurrence of needle in haystack"""
    if vc.choice(name + ".found", (True, False)):
        r = vc.int(name + ".index", 0, None)
        vc.assume(r + len(needle) <= len(haystack))
        vc.assume(vc.forall(r, r + len(needle), lambda p: haystack[p] == needle[p - r]))
        return r
    return None


def assign_option_spec(entry_options, hdr_options):
    if not entry_options:
        return (0, 0)
    oi = find_spec(hdr_options, entry_options)
    if oi is None:
        oi = len(hdr_options)
        hdr_options.extend(entry_options)
    return oi, len(entry_options)


def _assign_option_post(vc, name, entry_options, hdr_options):
    """what callers may assume about _assign_option (proved by ob_assign_option_post)"""
    if not entry_options:
        return (0, 0)
    if vc.choice(name + ".shared", (True, False)):
        oi = vc.int(name + ".oi", 0, None)
        vc.assume(oi + len(entry_options) <= len(hdr_options))
        vc.assume(vc.forall(oi, oi + len(entry_options), lambda p: hdr_options[p] == entry_options[p - oi]))
    else:
        oi = len(hdr_options)
        hdr_options.extend(entry_options)
    return (oi, len(entry_options))


CONTRACTS.update(
    {
        "someip.header._find": find_spec,
        "someip.header.SOMEIPSDEntry._assign_option": assign_option_spec,
    }
)
ABSTRACT.update(
    {
        find_spec: {"gen": _find_post, "raises": ()},
        assign_option_spec: {"gen": _assign_option_post, "raises": (), "effects": True},
    }
)


def ob_assign_option_post(vc):
    """_assign_option(run, hdr): (0, 0) and no change for an empty run; otherwise (oi, len(run))
    such that afterwards hdr[oi : oi+len(run)] == run, and hdr only grew at its end (either
    unchanged because the run is shared, or extended by exactly the run)"""
    run = vc.opaque_seq("run", "option")
    hdr = vc.sym_list("hdr")
    before = tuple(hdr)
    n0 = len(hdr)
    o = vc.outcome(vc.body(H.SOMEIPSDEntry._assign_option), run, hdr)
    vc.check(o.kind == "ret", "_assign_option.returns")
    if o.kind != "ret":
        return
    oi, no = o.value
    if len(run) == 0:
        vc.cover("empty-run")
        vc.check(oi == 0 and no == 0, "_assign_option.empty_run_is_0_0")
        vc.check_eq(len(hdr), n0, "_assign_option.empty_run_leaves_array")
        return
    vc.cover("run")
    vc.check_eq(no, len(run), "_assign_option.count_is_run_length")
    vc.check(oi >= 0 and oi + no <= len(hdr), "_assign_option.run_inside_array")
    vc.check(vc.forall(oi, oi + no, lambda p: hdr[p] == run[p - oi]), "_assign_option.array_holds_run_at_index")
    vc.check(len(hdr) >= n0, "_assign_option.array_only_grows")
    vc.check(vc.forall(0, n0, lambda m: hdr[m] == before[m]), "_assign_option.existing_options_keep_their_index")
    vc.check(len(hdr) == n0 or (oi == n0 and len(hdr) == n0 + no), "_assign_option.appends_exactly_the_run_or_nothing")


def ob_assign_then_resolve(vc):
    """the step of 'every entry keeps exactly its own options': assigning indexes for an
    entry against the shared array, letting later entries extend the array arbitrarily,
    and resolving again yields the entry's two runs in their original order, all other
    fields unchanged"""
    from contracts.spec_config import gen_entry

    e = gen_entry(vc, "e", resolved=True)
    hdr = vc.sym_list("hdr")
    o = vc.outcome(vc.body(H.SOMEIPSDEntry.assign_option_index), e, hdr)
    vc.check(o.kind == "ret", "assign_option_index.returns")
    if o.kind != "ret":
        return
    a = o.value
    vc.check(not a.options_resolved, "assign_option_index.result_has_indexes")
    vc.check_eq(len(a.options_1) + len(a.options_2), 0, "assign_option_index.result_carries_no_resolved_options")
    hdr.extend(vc.opaque_seq("later", "option"))
    r = a.resolve_options(tuple(hdr))
    vc.check_eq(r.options_1, e.options_1, "assign_then_resolve.options_1")
    vc.check_eq(r.options_2, e.options_2, "assign_then_resolve.options_2")
    vc.check_eq(r, e, "assign_then_resolve.other_fields")
    vc.check(a.num_options_1 == len(e.options_1) and a.num_options_2 == len(e.options_2), "assign_option_index.counts")


FIND_OBLIGATIONS = [ob_find_sound, ob_assign_option_post, ob_assign_then_resolve]


# ============================================================================ whole-message glue (bounded in the number of entries)


def ob_sd_assign_resolve_bounded(vc):
    """BOUNDED in the number of entries (0..2; run lengths, shared array and all field
    values symbolic): assign_option_indexes followed by resolve_options returns the same
    flags and the same entries in the same order, each with exactly its two runs, and
    keeps the pre-existing options of the message at their indexes."""
    from contracts.spec_config import gen_entry

    n = vc.choice("n_entries", (0, 1, 2))
    entries = tuple(gen_entry(vc, "e" + str(i), resolved=True) for i in range(n))
    pre = vc.opaque_seq("pre_options", "option")
    h = H.SOMEIPSDHeader(
        entries=entries,
        options=pre,
        flag_reboot=vc.bool("flag_reboot"),
        flag_unicast=vc.bool("flag_unicast"),
        flags_unknown=vc.int("flags_unknown", 0, 63),
    )
    a = vc.body(H.SOMEIPSDHeader.assign_option_indexes)(h)
    vc.check_eq((a.flag_reboot, a.flag_unicast, a.flags_unknown), (h.flag_reboot, h.flag_unicast, h.flags_unknown), "sd.assign.flags_kept")
    vc.check(len(a.options) >= len(pre), "sd.assign.options_only_grow")
    vc.check(vc.forall(0, len(pre), lambda m: a.options[m] == pre[m]), "sd.assign.existing_options_keep_their_index")
    vc.check_eq(len(a.entries), n, "sd.assign.same_number_of_entries")
    r = vc.body(H.SOMEIPSDHeader.resolve_options)(a)
    vc.check_eq((r.flag_reboot, r.flag_unicast, r.flags_unknown), (h.flag_reboot, h.flag_unicast, h.flags_unknown), "sd.resolve.flags_kept")
    vc.check_eq(len(r.entries), n, "sd.resolve.same_number_of_entries")
    for i in range(n):
        vc.check_eq(r.entries[i], entries[i], "sd.assign_resolve.entry_fields[" + str(i) + "]")
        vc.check_eq(r.entries[i].options_1, entries[i].options_1, "sd.assign_resolve.options_1[" + str(i) + "]")
        vc.check_eq(r.entries[i].options_2, entries[i].options_2, "sd.assign_resolve.options_2[" + str(i) + "]")


GLUE_OBLIGATIONS = [ob_sd_assign_resolve_bounded]


# ---------------------------------------------------------------------------- header-level option glue, for callers


def sd_resolve_options(self):
    return H.SOMEIPSDHeader(
        entries=tuple([e.resolve_options(self.options) for e in self.entries]),
        options=self.options,
        flag_reboot=self.flag_reboot,
        flag_unicast=self.flag_unicast,
        flags_unknown=self.flags_unknown,
    )


def _abs_sd_resolved(vc, name, self):
    """callers of SOMEIPSDHeader.resolve_options rely on: same flags and options, one
    resolved entry per entry (element-wise content: entry_resolve_options, proved there;
    the comprehension itself is checked by the bounded whole-message obligation)"""
    entries = vc.opaque_seq(name + ".entries", "entry")
    vc.assume(len(entries) == len(self.entries))
    return H.SOMEIPSDHeader(entries=entries, options=self.options, flag_reboot=self.flag_reboot, flag_unicast=self.flag_unicast, flags_unknown=self.flags_unknown)


CONTRACTS["someip.header.SOMEIPSDHeader.resolve_options"] = sd_resolve_options
ABSTRACT[sd_resolve_options] = {"gen": _abs_sd_resolved, "raises": ()}


# ---------------------------------------------------------------------------- header-level glue, unbounded (comprehension contracts)


def sd_assign_option_indexes(self):
    options = list(self.options)
    entries = [e.assign_option_index(options) for e in self.entries]
    return H.SOMEIPSDHeader(entries=tuple(entries), options=tuple(options), flag_reboot=self.flag_reboot, flag_unicast=self.flag_unicast, flags_unknown=self.flags_unknown)


def _abs_sd_assigned(vc, name, self):
    """callers of SOMEIPSDHeader.assign_option_indexes rely on: same flags, one entry per
    entry, the option array extended at its end (proved by ob_sd_assign_option_indexes)"""
    entries = vc.opaque_seq(name + ".entries", "entry")
    vc.assume(len(entries) == len(self.entries))
    return H.SOMEIPSDHeader(entries=entries, options=tuple(self.options) + vc.opaque_seq(name + ".new_options", "option"), flag_reboot=self.flag_reboot, flag_unicast=self.flag_unicast, flags_unknown=self.flags_unknown)


CONTRACTS["someip.header.SOMEIPSDHeader.assign_option_indexes"] = sd_assign_option_indexes
ABSTRACT[sd_assign_option_indexes] = {"gen": _abs_sd_assigned, "raises": ()}


def _aoi_init(vc, v):
    vc.stash("aoi.init", v)


def _aoi_inv(vc, v):
    """the shared array only grows at its end: the message's own options keep their indexes"""
    pre = v["self"].options
    opts = v["options"]
    return len(opts) >= len(pre) and vc.forall(0, len(pre), lambda m: opts[m] == pre[m])


def _aoi_head(vc, v, entering):
    vc.stash("aoi.entering", entering)
    vc.stash("aoi.head", v)


def _aoi_post(vc, v):
    vc.stash("aoi.post", v)


def _ro_head(vc, v, entering):
    vc.stash("ro.entering", entering)
    vc.stash("ro.head", v)


def _ro_post(vc, v):
    vc.stash("ro.post", v)


LOOPS.update(
    {
        ("someip.header.SOMEIPSDHeader.assign_option_indexes", "comp", 0): {
            "havoc": {"options": _gen_symlist},
            "init": _aoi_init,
            "inv": _aoi_inv,
            "head": _aoi_head,
            "post": _aoi_post,
        },
        ("someip.header.SOMEIPSDHeader.resolve_options", "comp", 0): {"head": _ro_head, "post": _ro_post},
    }
)


def _gen_resolved_entry(vc, name):
    from contracts.spec_config import gen_entry

    return gen_entry(vc, name, resolved=True)


def ob_sd_assign_option_indexes(vc):
    """SOMEIPSDHeader.assign_option_indexes for a message with ARBITRARILY MANY entries
    (comprehension contract): the shared array starts as the message's options and only
    grows at its end (invariant); an arbitrary entry gets indexes such that, whatever later
    entries append, resolving them against the final array returns exactly its two runs;
    the result keeps the flags, has one entry per entry and carries the final array"""
    h = H.SOMEIPSDHeader(
        entries=vc.seq("entries", _gen_resolved_entry),
        options=vc.opaque_seq("options", "option"),
        flag_reboot=vc.bool("flag_reboot"),
        flag_unicast=vc.bool("flag_unicast"),
        flags_unknown=vc.int("flags_unknown", 0, 63),
    )
    o = vc.outcome(vc.body(H.SOMEIPSDHeader.assign_option_indexes), h)
    vc.check(o.kind != "raise", "assign_option_indexes.never_raises")
    if vc.native:
        if o.kind == "ret":
            r = o.value.resolve_options()
            vc.check_eq(r.entries, h.entries, "assign_option_indexes.resolves_back")
            vc.check_eq([(e.options_1, e.options_2) for e in r.entries], [(e.options_1, e.options_2) for e in h.entries], "assign_option_indexes.resolves_back_runs")
        return
    init = vc.stashed("aoi.init")
    vc.check_eq(tuple(init["options"]), h.options, "assign_option_indexes.init.shared_array_starts_as_the_messages_options")
    if vc.stashed("aoi.entering"):
        vc.cover("entry")
        post = vc.stashed("aoi.post")
        e = post["e"]
        a = post["$elt"]
        vc.check(not a.options_resolved, "assign_option_indexes.step.entry_has_indexes")
        final = post["options"]
        final.extend(vc.opaque_seq("later", "option"))
        r = a.resolve_options(tuple(final))
        vc.check_eq(r.options_1, e.options_1, "assign_option_indexes.step.entry_keeps_run_1")
        vc.check_eq(r.options_2, e.options_2, "assign_option_indexes.step.entry_keeps_run_2")
        vc.check_eq(r, e, "assign_option_indexes.step.entry_keeps_its_fields")
    else:
        vc.cover("exit")
        vc.check(o.kind == "ret", "assign_option_indexes.exit.returns")
        if o.kind == "ret":
            res = o.value
            head = vc.stashed("aoi.head")
            vc.check_eq((res.flag_reboot, res.flag_unicast, res.flags_unknown), (h.flag_reboot, h.flag_unicast, h.flags_unknown), "assign_option_indexes.exit.flags_kept")
            vc.check_eq(len(res.entries), len(h.entries), "assign_option_indexes.exit.one_entry_per_entry")
            vc.check_eq(res.options, tuple(head["options"]), "assign_option_indexes.exit.carries_the_final_array")
            vc.check(len(res.options) >= len(h.options), "assign_option_indexes.exit.options_only_grow")


def _gen_wire_entry_for_resolve(vc, name):
    return gen_wire_entry(vc, name)


def ob_sd_resolve_options(vc):
    """SOMEIPSDHeader.resolve_options for ARBITRARILY MANY entries: an arbitrary entry is
    resolved against the message's option array exactly as its contract says; the result
    keeps flags and options and has one entry per entry"""
    h = H.SOMEIPSDHeader(
        entries=vc.seq("entries", _gen_wire_entry_for_resolve),
        options=vc.opaque_seq("options", "option"),
        flag_reboot=vc.bool("flag_reboot"),
        flag_unicast=vc.bool("flag_unicast"),
        flags_unknown=vc.int("flags_unknown", 0, 63),
    )
    o = vc.outcome(vc.body(H.SOMEIPSDHeader.resolve_options), h)
    if vc.native:
        vc.same_outcome(o, vc.outcome(sd_resolve_options, h), "resolve_options.refines_whole")
        return
    if vc.stashed("ro.entering"):
        vc.cover("entry")
        post = vc.stashed("ro.post")
        exp = entry_resolve_options(post["e"], h.options)
        vc.check_eq(post["$elt"], exp, "resolve_options.step.entry_resolved_against_the_messages_options")
        vc.check_eq(post["$elt"].options_1, exp.options_1, "resolve_options.step.run_1")
        vc.check_eq(post["$elt"].options_2, exp.options_2, "resolve_options.step.run_2")
    else:
        vc.cover("exit")
        vc.check(o.kind == "ret", "resolve_options.exit.returns")
        if o.kind == "ret":
            res = o.value
            vc.check_eq((res.flag_reboot, res.flag_unicast, res.flags_unknown), (h.flag_reboot, h.flag_unicast, h.flags_unknown), "resolve_options.exit.flags_kept")
            vc.check_eq(res.options, h.options, "resolve_options.exit.options_kept")
            vc.check_eq(len(res.entries), len(h.entries), "resolve_options.exit.one_entry_per_entry")


GLUE_OBLIGATIONS = [ob_sd_assign_option_indexes, ob_sd_resolve_options]
