"""C06 -- server subscription records are truthful; acknowledged subscriptions are held."""
from contracts import spec_announce as SA
from contracts import spec_sd as SS
from contracts import spec_store as ST

FUNCTIONS = [
    "someip.sd.ServiceInstance.handle_subscribe",
    "someip.sd.ServiceInstance.eventgroup_subscribe_stopped",
    "someip.sd.ServiceInstance.reboot_detected",
    "someip.sd.ServiceInstance.stop",
    "someip.sd.ServiceAnnouncer.handle_subscribe",
    "someip.sd.ServiceAnnouncer.reboot_detected",
    "someip.sd.EventgroupSubscription.from_subscribe_entry",
    "someip.sd.EventgroupSubscription.to_ack_entry",
    "someip.sd.EventgroupSubscription.to_nack_entry",
    "someip.sd.TimedStore.* (spec_store obligations; bodies inlined at the call sites)",
    "someip.sd.ServiceDiscoveryProtocol.message_received (reboot before entries)",
]
ASSUMPTIONS = [
    "event-loop model contracts/looplib.py (trusted)",
    "the server-side listener accepts or raises NakSubscription (both explored); it is a recorder otherwise",
    "history claims (alternation, truthfulness, 'held until TTL / StopSubscribe / reboot / stop') are proved as one step from an arbitrary consistent state under every operation that can change the records; induction over the history is the trusted rule",
    "queue_send is observed at the announcer (its transmission is C15)",
]
BOUNDED = ST.BOUNDED + SA.BOUNDED
EXPLANATION = "every operation that adds, refreshes or removes a subscription record is proved to keep the monitor invariant for all ids, counters, TTLs, endpoints, addresses and times; the record store and the options of an entry are unbounded (bounded_stand_ins)"
HARNESSES = ST.STORE_OBLIGATIONS + SA.SERVER_SUBSCRIPTION_OBLIGATIONS + SS.MESSAGE_RECEIVED_OBLIGATIONS
EXPECT_COVERS = {
    "ob_from_subscribe_entry": ["option", "result"],
    "ob_instance_handle_subscribe": ["not-mine", "stop-subscribe", "rejected", "accepted"],
    "ob_announcer_handle_subscribe": ["stop-subscribe", "subscribe"],
    "ob_subscriber_reboot": ["record"],
    "ob_instance_stop": ["record", "done"],
}
