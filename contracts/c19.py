"""C19 -- service and eventgroup matching obeys the wildcard laws.

Layer (i): every matcher / converter of someip.config refines its spec function
(contracts/spec_config.py).  Layer (ii): the laws of the statement as lemmas; in them the
real functions are called, and the verifier replaces each call by the callee's contract.
"""
import someip.config as C
import someip.header as H
from contracts import spec_config as SC
from contracts.spec_config import gen_entry, gen_eventgroup, gen_service, gen_service_with_groups

FUNCTIONS = [
    "someip.config.Service.matches_offer",
    "someip.config.Service.matches_find",
    "someip.config.Service.matches_subscribe",
    "someip.config.Service.matches_service",
    "someip.config.Service.create_find_entry",
    "someip.config.Service.create_offer_entry",
    "someip.config.Service.from_offer_entry",
    "someip.config.Eventgroup.as_service",
    "someip.config.Eventgroup.for_service",
    "someip.header.SOMEIPSDEntry.service_minor_version (inlined)",
    "someip.header.SOMEIPSDEntry.eventgroup_id (inlined)",
    "someip.header.SOMEIPSDEntry.options_resolved (inlined)",
]

ASSUMPTIONS = [
    "field domains: service/instance id 0..0xFFFF, major 0..0xFF, minor 0..0xFFFFFFFF, ttl 0..0xFFFFFF (full wire range, symbolic)",
    "options are opaque values compared by identity; option runs are tuples of arbitrary symbolic length",
    "eventgroups is an arbitrary set of ints (symbolic membership)",
    "dataclass __init__/__eq__/replace as modelled in pyvc/lib.py",
]


def ob_law_symmetry(vc):
    a = gen_service(vc, "A", with_options=False)
    b = gen_service(vc, "B", with_options=False)
    vc.check_eq(a.matches_service(b), b.matches_service(a), "matches_service.symmetric")


def _widen(vc, s, which):
    if which == 0:
        return C.Service(s.service_id, 0xFFFF, s.major_version, s.minor_version)
    if which == 1:
        return C.Service(s.service_id, s.instance_id, 0xFF, s.minor_version)
    return C.Service(s.service_id, s.instance_id, s.major_version, 0xFFFFFFFF)


def ob_law_monotone_offer(vc):
    """replacing any field of a filter by its wildcard never loses a match (offers)"""
    f = gen_service(vc, "F", with_options=False)
    e = gen_entry(vc, "E", sd_type=H.SOMEIPSDEntryType.OfferService)
    which = vc.choice("field", (0, 1, 2))
    if f.matches_offer(e):
        vc.cover("matched")
        vc.check(_widen(vc, f, which).matches_offer(e), "matches_offer.monotone")


def ob_law_monotone_service(vc):
    """... description against description, widening either side"""
    a = gen_service(vc, "A", with_options=False)
    b = gen_service(vc, "B", with_options=False)
    which = vc.choice("field", (0, 1, 2))
    if a.matches_service(b):
        vc.cover("matched")
        vc.check(_widen(vc, a, which).matches_service(b), "matches_service.monotone_left")
        vc.check(a.matches_service(_widen(vc, b, which)), "matches_service.monotone_right")


def ob_law_monotone_find(vc):
    """the FindService entry is the side that may carry wildcards"""
    s = gen_service(vc, "S", with_options=False)
    f = gen_service(vc, "F", with_options=False)
    which = vc.choice("field", (0, 1, 2))
    if s.matches_find(f.create_find_entry()):
        vc.cover("matched")
        vc.check(s.matches_find(_widen(vc, f, which).create_find_entry()), "matches_find.monotone")


def ob_law_monotone_subscribe(vc):
    e = gen_entry(vc, "E", sd_type=H.SOMEIPSDEntryType.Subscribe)
    s = gen_service_with_groups(vc, "S", [e.minver_or_counter & 0xFFFF])
    which = vc.choice("field", (0, 1))
    if s.matches_subscribe(e):
        vc.cover("matched")
        if which == 0:
            w = C.Service(s.service_id, 0xFFFF, s.major_version, s.minor_version, eventgroups=s.eventgroups)
        else:
            w = C.Service(s.service_id, s.instance_id, 0xFF, s.minor_version, eventgroups=s.eventgroups)
        vc.check(w.matches_subscribe(e), "matches_subscribe.monotone")


def ob_law_find_offer_duality(vc):
    """a concrete service answers a filter's find entry exactly when the filter accepts
    the service's offer entry"""
    s = gen_service(vc, "S")
    f = gen_service(vc, "F")
    vc.assume(s.instance_id != 0xFFFF)
    vc.assume(s.major_version != 0xFF)
    vc.assume(s.minor_version != 0xFFFFFFFF)
    vc.check_eq(s.matches_find(f.create_find_entry()), f.matches_offer(s.create_offer_entry()), "find_offer.duality")


def ob_law_subscribe_iff(vc):
    """a subscribe entry matches exactly when the ids match and the eventgroup is declared"""
    e = gen_entry(vc, "E", sd_type=H.SOMEIPSDEntryType.Subscribe)
    s = gen_service_with_groups(vc, "S", [e.minver_or_counter & 0xFFFF, e.eventgroup_id])
    ids = (
        s.service_id == e.service_id
        and (s.instance_id == 0xFFFF or s.instance_id == e.instance_id)
        and (s.major_version == 0xFF or s.major_version == e.major_version)
    )
    declared = e.eventgroup_id in s.eventgroups
    vc.check_eq(s.matches_subscribe(e), ids and declared, "matches_subscribe.iff")


def ob_law_offer_roundtrip(vc):
    """description -> offer entry -> description preserves ids, versions and options"""
    s = gen_service(vc, "S")
    ttl = vc.int("ttl", 0, 0xFFFFFF)
    r = C.Service.from_offer_entry(s.create_offer_entry(ttl))
    vc.check_eq(r.service_id, s.service_id, "offer_roundtrip.service_id")
    vc.check_eq(r.instance_id, s.instance_id, "offer_roundtrip.instance_id")
    vc.check_eq(r.major_version, s.major_version, "offer_roundtrip.major_version")
    vc.check_eq(r.minor_version, s.minor_version, "offer_roundtrip.minor_version")
    vc.check_eq(r.options_1, s.options_1, "offer_roundtrip.options_1")
    vc.check_eq(r.options_2, s.options_2, "offer_roundtrip.options_2")


def ob_law_for_service(vc):
    """specialising an eventgroup filter succeeds exactly when the filter accepts the
    offer, and then adopts the offer's instance id and major version"""
    g = gen_eventgroup(vc, "G")
    s = gen_service(vc, "S")
    accepts = g.as_service().matches_offer(s.create_offer_entry())
    r = g.for_service(s)
    vc.check_eq(r is not None, accepts, "for_service.iff_accepts")
    if r is not None:
        vc.cover("specialised")
        vc.check_eq(r.instance_id, s.instance_id, "for_service.instance_id")
        vc.check_eq(r.major_version, s.major_version, "for_service.major_version")
        vc.check_eq(r.service_id, g.service_id, "for_service.service_id")
        vc.check_eq(r.eventgroup_id, g.eventgroup_id, "for_service.eventgroup_id")
        vc.check_eq(r.sockname, g.sockname, "for_service.sockname")
        vc.check_eq(r.protocol, g.protocol, "for_service.protocol")


def ob_matcher_history(vc):
    """matching after earlier matching: three calls in a row (same filter or another one,
    same kind of matcher or another one, entries that differ in any field) each give the
    answer of the wildcard spec for their own arguments -- nothing is remembered between
    calls.  Natively this is the search that decides when a matcher is found to keep state
    (global frame, DESIGN 3.5)."""
    s1 = SC.gen_service(vc, "S1", with_options=False)
    k = 0
    # symbolically: two calls of one matcher (the paths of the calls multiply); natively: three
    # calls of any mix
    first = vc.choice("matcher", ("offer", "find", "service"))
    for name in ("a", "b", "c") if vc.native else ("a", "b"):
        s = s1 if vc.bool(name + ".same_filter") else SC.gen_service(vc, name + ".S", with_options=False)
        which = vc.choice(name + ".matcher", ("offer", "find", "service")) if vc.native else first
        if which == "offer":
            e = SC.gen_entry(vc, name + ".E")
            vc.same_outcome(vc.outcome(vc.body(C.Service.matches_offer), s, e), vc.outcome(SC.matches_offer, s, e), "history[" + str(k) + "].matches_offer.refines")
        elif which == "find":
            e = SC.gen_entry(vc, name + ".E")
            vc.same_outcome(vc.outcome(vc.body(C.Service.matches_find), s, e), vc.outcome(SC.matches_find, s, e), "history[" + str(k) + "].matches_find.refines")
        else:
            o = SC.gen_service(vc, name + ".O", with_options=False)
            vc.same_outcome(vc.outcome(vc.body(C.Service.matches_service), s, o), vc.outcome(SC.matches_service, s, o), "history[" + str(k) + "].matches_service.refines")
        k += 1


def canary_symmetry_of_offer(vc):
    """must be refuted: matches_offer is NOT symmetric in its wildcard handling"""
    a = gen_service(vc, "A", with_options=False)
    b = gen_service(vc, "B", with_options=False)
    vc.check_eq(a.matches_offer(b.create_offer_entry()), b.matches_offer(a.create_offer_entry()), "canary")


HARNESSES = SC.REFINES + [
    ob_law_symmetry,
    ob_law_monotone_offer,
    ob_law_monotone_service,
    ob_law_monotone_find,
    ob_law_monotone_subscribe,
    ob_law_find_offer_duality,
    ob_law_subscribe_iff,
    ob_law_offer_roundtrip,
    ob_law_for_service,
    ob_matcher_history,
    canary_symmetry_of_offer,
]

EXPECT_COVERS = {
    "ob_law_monotone_offer": ["matched"],
    "ob_law_monotone_service": ["matched"],
    "ob_law_monotone_find": ["matched"],
    "ob_law_monotone_subscribe": ["matched"],
    "ob_law_for_service": ["specialised"],
}
