"""Contracts of someip.sd.TimedStore (shared by C05, C06, C09), as postcondition
obligations on each operation, over an event-loop model with a symbolic clock.

The store content is BOUNDED IN SHAPE: besides the entry the operation is about (present
with a timer, present with the infinite TTL, or absent) it holds up to one other entry
under the same address and up to one entry under another address, each optional; keys,
addresses, TTLs, deadlines and the clock are symbolic.
"""
import logging

import someip.sd as SD
from contracts import looplib as LL
from contracts.common import gen_addr

TTL_FOREVER = 0xFFFFFF


class World:
    """a TimedStore with arbitrary (bounded-shape) contents on a fresh loop model, plus the
    bookkeeping a harness needs to state postconditions"""

    def __init__(self, vc, name="w"):
        self.vc = vc
        self.loop = vc.install_loop(LL.FakeLoop(vc.real(name + ".now", 0)))
        self.events = []  # notifications in the order they are delivered
        self.ts = SD.TimedStore(logging.getLogger("verif"))
        self.A = gen_addr(vc, name + ".A")
        self.B = gen_addr(vc, name + ".B")
        vc.assume(self.A != self.B)
        self.k0 = vc.opaque(name + ".k0", "key")
        self.k1 = vc.opaque(name + ".k1", "key")
        vc.assume(self.k0 != self.k1)
        self.slots = {}  # (addr, key) -> None | ("forever", None) | ("timer", handle)
        self.populate(name + ".A_k0", self.A, self.k0, ("absent", "timer", "forever"))
        self.populate(name + ".A_k1", self.A, self.k1, ("absent", "timer", "forever"))
        self.populate(name + ".B_k0", self.B, self.k0, ("absent", "timer"))

    def on_new(self, entry, addr):
        self.events.append(("new", entry, addr))

    def on_expired(self, entry, addr):
        self.events.append(("expired", entry, addr))

    def populate(self, name, addr, key, kinds):
        kind = self.vc.choice(name, kinds)
        if kind == "absent":
            self.slots[(addr, key)] = None
            return
        handle = None
        if kind == "timer":
            handle = self.loop.call_later(self.vc.real(name + ".remaining", 0), self.ts._expired, addr, key)
        self.ts.store[addr][key] = (self.on_expired, handle)
        self.slots[(addr, key)] = (kind, handle)

    # ---- observations
    def present(self, addr, key):
        return addr in self.ts.store and key in self.ts.store[addr]

    def handle_of(self, addr, key):
        return self.ts.store[addr][key][1]

    def count_entries(self):
        return sum([len(d) for d in self.ts.store.values()])

    def check_untouched(self, label, skip):
        """frame: every slot not in `skip` is exactly as it was, its timer still armed"""
        vc = self.vc
        for slot, st in self.slots.items():
            if slot in skip:
                continue
            addr, key = slot
            if st is None:
                vc.check(not self.present(addr, key), label + ".frame.absent_stays_absent")
            else:
                vc.check(self.present(addr, key), label + ".frame.present_stays_present")
                if self.present(addr, key):
                    vc.check(self.handle_of(addr, key) is st[1], label + ".frame.same_timer")
                    if st[1] is not None:
                        vc.check(not st[1].cancelled_, label + ".frame.timer_not_cancelled")

    def check_invariant(self, label):
        """TS-INV: every live timer of the loop carries _expired(addr, key) for an entry
        that is present and holds exactly that handle (so a stale timer cannot exist);
        the number of entries matches the slots known to the harness (no stray entry)"""
        vc = self.vc
        for h in self.loop.live_timers():
            ok = h.callback == self.ts._expired and len(h.args) == 2 and self.present(h.args[0], h.args[1])
            vc.check(ok, label + ".inv.live_timer_belongs_to_a_present_entry")
            if ok:
                vc.check(self.handle_of(h.args[0], h.args[1]) is h, label + ".inv.entry_holds_its_live_timer")


def ob_refresh(vc):
    """refresh(ttl, addr, key, new, expired) on an arbitrary store: the entry is present
    afterwards with `expired` as callback; its timer is armed for exactly now + ttl, or there
    is none for the infinite TTL; the previous timer is cancelled; `new` is called exactly
    once, immediately, iff the entry was absent; nothing is deferred; nothing else changes"""
    w = World(vc)
    ttl = vc.int("ttl", 0, TTL_FOREVER)
    before = w.slots[(w.A, w.k0)]
    n_timers = len(w.loop.timers)
    w.ts.refresh(ttl, w.A, w.k0, w.on_new, w.on_expired)
    vc.check(w.present(w.A, w.k0), "refresh.entry_present")
    if w.present(w.A, w.k0):
        cb, h = w.ts.store[w.A][w.k0]
        vc.check(cb == w.on_expired, "refresh.records_expiry_callback")
        if ttl == TTL_FOREVER:
            vc.cover("forever")
            vc.check(h is None, "refresh.infinite_ttl_has_no_timer")
            vc.check_eq(len(w.loop.timers), n_timers, "refresh.infinite_ttl_arms_nothing")
        else:
            vc.cover("finite")
            vc.check(h is not None, "refresh.finite_ttl_has_a_timer")
            if h is not None:
                vc.check_eq(h.when, w.loop.now + ttl, "refresh.deadline_is_now_plus_ttl")
                vc.check(h.callback == w.ts._expired and h.args == (w.A, w.k0), "refresh.timer_expires_this_entry")
                vc.check(not h.cancelled_, "refresh.new_timer_is_live")
            vc.check_eq(len(w.loop.timers), n_timers + 1, "refresh.arms_exactly_one_timer")
    if before is not None and before[1] is not None:
        vc.cover("replaces-timer")
        vc.check(before[1].cancelled_, "refresh.previous_timer_cancelled")
    if before is None:
        vc.check_eq(w.events, [("new", w.k0, w.A)], "refresh.new_entry_notified_once_immediately")
    else:
        vc.check_eq(w.events, [], "refresh.known_entry_not_notified_again")
    vc.check_eq(len(w.loop.ready), 0, "refresh.defers_nothing")
    w.check_untouched("refresh", [(w.A, w.k0)])
    w.check_invariant("refresh")


def ob_refresh_rejected(vc):
    """a `new` callback that raises (NakSubscription) leaves the store and the loop exactly
    as they were: the rejected entry is not recorded and no timer is armed"""
    w = World(vc)
    vc.assume(w.slots[(w.A, w.k0)] is None)
    ttl = vc.int("ttl", 0, TTL_FOREVER)

    def reject(entry, addr):
        raise SD.NakSubscription()

    n_timers = len(w.loop.timers)
    o = vc.outcome(w.ts.refresh, ttl, w.A, w.k0, reject, w.on_expired)
    vc.check(vc.is_exc(o, SD.NakSubscription), "refresh.rejection_propagates")
    vc.check(not w.present(w.A, w.k0), "refresh.rejected_entry_not_recorded")
    vc.check_eq(len(w.loop.timers), n_timers, "refresh.rejected_entry_arms_no_timer")
    vc.check_eq(w.events, [], "refresh.rejected_entry_not_reported")
    w.check_untouched("refresh_rejected", [(w.A, w.k0)])


def ob_stop(vc):
    """stop(addr, key): a present entry is removed, its timer cancelled and its expiry
    callback called exactly once, immediately; an absent entry causes nothing"""
    w = World(vc)
    before = w.slots[(w.A, w.k0)]
    w.ts.stop(w.A, w.k0)
    vc.check(not w.present(w.A, w.k0), "stop.entry_absent_afterwards")
    if before is None:
        vc.cover("absent")
        vc.check_eq(w.events, [], "stop.absent_entry_not_reported")
    else:
        vc.cover("present")
        vc.check_eq(w.events, [("expired", w.k0, w.A)], "stop.reported_once_immediately")
        if before[1] is not None:
            vc.check(before[1].cancelled_, "stop.timer_cancelled")
    vc.check_eq(len(w.loop.ready), 0, "stop.defers_nothing")
    w.check_untouched("stop", [(w.A, w.k0)])
    w.check_invariant("stop")


def ob_expired(vc):
    """the timer of an entry fires: the entry is removed and reported exactly once, before
    anything else can run (nothing deferred); other entries and their timers are untouched;
    under the store invariant the timer always finds its entry"""
    w = World(vc)
    st = w.slots[(w.A, w.k0)]
    vc.assume(st is not None and st[1] is not None)
    fired = w.loop.fire(st[1])
    vc.check(fired, "expired.live_timer_fires")
    vc.check(not w.present(w.A, w.k0), "expired.entry_removed")
    vc.check_eq(w.events, [("expired", w.k0, w.A)], "expired.reported_exactly_once_immediately")
    vc.check_eq(len(w.loop.ready), 0, "expired.defers_nothing")
    vc.check_eq(w.loop.now, st[1].when, "expired.fires_at_its_deadline")
    w.check_untouched("expired", [(w.A, w.k0)])
    w.check_invariant("expired")
    # a timer fires at most once and never after it was cancelled
    vc.check(not w.loop.fire(st[1]), "expired.fires_at_most_once")


def ob_stop_all_for_address(vc):
    """stop_all_for_address(addr): every entry of addr is removed, its timer cancelled and
    its expiry callback called exactly once, immediately; other addresses are untouched"""
    w = World(vc)
    w.ts.stop_all_for_address(w.A)
    exp = []
    for slot, st in w.slots.items():
        if slot[0] == w.A and st is not None:
            exp.append(("expired", slot[1], w.A))
            if st[1] is not None:
                vc.check(st[1].cancelled_, "stop_all_for_address.timers_cancelled")
    vc.check(not w.present(w.A, w.k0) and not w.present(w.A, w.k1), "stop_all_for_address.address_emptied")
    vc.check_eq(len(w.loop.ready), 0, "stop_all_for_address.defers_nothing")
    vc.check_eq(len(w.events), len(exp), "stop_all_for_address.one_report_per_removed_entry")
    for e in exp:
        vc.check_eq(len([1 for x in w.events if x == e]), 1, "stop_all_for_address.each_removed_entry_reported_once")
    if len(exp) == 2:
        vc.cover("two-entries")
    w.check_untouched("stop_all_for_address", [(w.A, w.k0), (w.A, w.k1)])
    w.check_invariant("stop_all_for_address")


def ob_stop_all(vc):
    w = World(vc)
    w.ts.stop_all()
    n = len([1 for st in w.slots.values() if st is not None])
    vc.check_eq(w.count_entries(), 0, "stop_all.store_emptied")
    vc.check_eq(len(w.loop.ready), 0, "stop_all.defers_nothing")
    vc.check_eq(len(w.events), n, "stop_all.one_report_per_removed_entry")
    for st in w.slots.values():
        if st is not None and st[1] is not None:
            vc.check(st[1].cancelled_, "stop_all.timers_cancelled")
    vc.check_eq(len(w.loop.live_timers()), 0, "stop_all.no_live_timer_left")


def ob_entries(vc):
    w = World(vc)
    got = list(w.ts.entries())
    n = len([1 for st in w.slots.values() if st is not None])
    vc.check_eq(len(got), n, "entries.lists_every_entry_once")


STORE_OBLIGATIONS = [ob_refresh, ob_refresh_rejected, ob_stop, ob_expired, ob_stop_all_for_address, ob_stop_all, ob_entries]

BOUNDED = [
    "TimedStore contents: the entry under consideration (absent / timer / infinite TTL) plus at most one other entry under the same address and one under another address; keys, addresses, TTLs, deadlines and the clock symbolic"
]
