"""Contracts of someip.sd.TimedStore (shared by C05, C06, C09), as postcondition
obligations on each operation, over the event-loop model with a symbolic clock.

The store holds ARBITRARILY MANY entries: it is a dict with unbounded contents whose
entries are materialised when an operation (or the harness) first looks at them
(vc.lazy_dict).  Every entry that exists satisfies the store invariant by construction: its
handle is None (infinite TTL) or a live timer of the loop carrying _expired(addr, key).
What an operation does not touch is untouched by construction; what it iterates over is
verified for one arbitrary element (loop contracts).
"""
import logging

import someip.sd as SD
from contracts import looplib as LL
from contracts.common import check_frame

TTL_FOREVER = 0xFFFFFF


class World:
    def __init__(self, vc, name="w"):
        self.vc = vc
        self.name = name
        self.loop = vc.install_loop(LL.FakeLoop(vc.real(name + ".now", 0)))
        self.events = []  # notifications in the order they are delivered
        self.ts = SD.TimedStore(logging.getLogger("verif"))
        self.ts.store = vc.lazy_dict(name + ".store", self.gen_inner, self.gen_addr, default=dict)
        self.A = vc.opaque(name + ".A", "addr")
        self.B = vc.opaque(name + ".B", "addr")
        vc.assume(self.A != self.B)
        self.k0 = vc.opaque(name + ".k0", "key")
        self.k1 = vc.opaque(name + ".k1", "key")
        vc.assume(self.k0 != self.k1)
        # the entries the obligations talk about; (X, kx) is an ARBITRARY entry: whatever is
        # proved about it holds for every entry of the store
        self.X = vc.opaque(name + ".X", "addr")
        self.kx = vc.opaque(name + ".kx", "key")
        self.slots = {}
        for addr, key in ((self.A, self.k0), (self.A, self.k1), (self.B, self.k0), (self.X, self.kx)):
            known = False
            for s in self.slots:
                if s[0] == addr and s[1] == key:
                    known = True
            if not known:
                self.slots[(addr, key)] = self.state(addr, key)
        self.snap = vc.snapshot(ts=self.ts)

    # ---- generators of the unbounded contents
    def gen_addr(self, vc, name):
        return vc.opaque(name, "addr")

    def gen_key(self, vc, name):
        return vc.opaque(name, "key")

    def gen_inner(self, vc, name, addr):
        def gen_entry(vc2, name2, key):
            if vc2.choice(name2 + ".kind", ("timer", "forever")) == "forever":
                return (self.on_expired, None)
            h = self.loop.call_later(vc2.real(name2 + ".remaining", 0), self.ts._expired, addr, key)
            return (self.on_expired, h)

        return vc.lazy_dict(name + ".entries", gen_entry, self.gen_key)

    def on_new(self, entry, addr):
        self.events.append(("new", entry, addr))

    def on_expired(self, entry, addr):
        self.events.append(("expired", entry, addr))

    def native_snapshot(self):
        """native runs only: the concrete contents of the store, [((addr, key), (callback, handle))]"""
        return [((a, k), v) for a, inner in list(self.ts.store.items()) for k, v in list(inner.items())]

    # ---- observations
    def present(self, addr, key):
        return addr in self.ts.store and key in self.ts.store[addr]

    def handle_of(self, addr, key):
        return self.ts.store[addr][key][1]

    def state(self, addr, key):
        """None if absent, else ("timer"|"forever", handle)"""
        if not self.present(addr, key):
            return None
        h = self.handle_of(addr, key)
        return ("forever", None) if h is None else ("timer", h)

    def check_untouched(self, label, skip):
        """frame: every slot not in `skip` -- in particular the arbitrary one -- is exactly
        as it was, its timer still armed"""
        vc = self.vc
        for slot, st in self.slots.items():
            if slot in skip:
                continue
            addr, key = slot
            if st is None:
                vc.check(not self.present(addr, key), label + ".frame.absent_stays_absent")
            else:
                vc.check(self.present(addr, key), label + ".frame.present_stays_present")
                if self.present(addr, key):
                    vc.check(self.handle_of(addr, key) is st[1], label + ".frame.same_timer")
                    if st[1] is not None:
                        vc.check(not st[1].cancelled_, label + ".frame.timer_not_cancelled")

    def check_frame(self, label):
        """the store is the whole state of a TimedStore: nothing else of it changes"""
        check_frame(self.vc, self.snap, label, ("ts.store*",))

    def check_invariant(self, label, skip_addr=None):
        """store invariant: every live timer the loop knows of carries _expired(addr, key)
        for an entry that is present and holds exactly that handle (a stale timer cannot
        exist).  skip_addr: an address whose entries are being removed one by one by a loop
        that is verified for one arbitrary element (their timers are the loop's business)"""
        vc = self.vc
        for h in self.loop.live_timers():
            if skip_addr is not None and len(h.args) == 2 and h.args[0] == skip_addr:
                continue
            ok = h.callback == self.ts._expired and len(h.args) == 2 and self.present(h.args[0], h.args[1])
            vc.check(ok, label + ".inv.live_timer_belongs_to_a_present_entry")
            if ok:
                vc.check(self.handle_of(h.args[0], h.args[1]) is h, label + ".inv.entry_holds_its_live_timer")


def ob_refresh(vc):
    """refresh(ttl, addr, key, new, expired) on an arbitrary store: the entry is present
    afterwards with `expired` as callback; its timer is armed for exactly now + ttl, or there
    is none for the infinite TTL; the previous timer is cancelled; `new` is called exactly
    once, immediately, iff the entry was absent; nothing is deferred; no other entry changes"""
    w = World(vc)
    ttl = vc.int("ttl", 0, TTL_FOREVER)
    before = w.slots[(w.A, w.k0)]
    n_timers = len(w.loop.timers)
    vc.body(SD.TimedStore.refresh)(w.ts, ttl, w.A, w.k0, w.on_new, w.on_expired)
    vc.check(w.present(w.A, w.k0), "refresh.entry_present")
    if w.present(w.A, w.k0):
        cb, h = w.ts.store[w.A][w.k0]
        vc.check(cb == w.on_expired, "refresh.records_expiry_callback")
        if ttl == TTL_FOREVER:
            vc.cover("forever")
            vc.check(h is None, "refresh.infinite_ttl_has_no_timer")
            vc.check_eq(len(w.loop.timers), n_timers, "refresh.infinite_ttl_arms_nothing")
        else:
            vc.cover("finite")
            vc.check(h is not None, "refresh.finite_ttl_has_a_timer")
            if h is not None:
                vc.check_eq(h.when, w.loop.now + ttl, "refresh.deadline_is_now_plus_ttl")
                vc.check(h.callback == w.ts._expired and h.args == (w.A, w.k0), "refresh.timer_expires_this_entry")
                vc.check(not h.cancelled_, "refresh.new_timer_is_live")
            vc.check_eq(len(w.loop.timers), n_timers + 1, "refresh.arms_exactly_one_timer")
    if before is not None and before[1] is not None:
        vc.cover("replaces-timer")
        vc.check(before[1].cancelled_, "refresh.previous_timer_cancelled")
    if before is None:
        vc.check_eq(w.events, [("new", w.k0, w.A)], "refresh.new_entry_notified_once_immediately")
    else:
        vc.check_eq(w.events, [], "refresh.known_entry_not_notified_again")
    vc.check_eq(len(w.loop.ready), 0, "refresh.defers_nothing")
    w.check_untouched("refresh", [(w.A, w.k0)])
    w.check_invariant("refresh")
    w.check_frame("refresh")


def ob_refresh_rejected(vc):
    """a `new` callback that raises (NakSubscription) leaves the store and the loop exactly
    as they were: the rejected entry is not recorded and no timer is armed"""
    w = World(vc)
    vc.assume(w.slots[(w.A, w.k0)] is None)
    ttl = vc.int("ttl", 0, TTL_FOREVER)

    def reject(entry, addr):
        raise SD.NakSubscription()

    n_timers = len(w.loop.timers)
    o = vc.outcome(vc.body(SD.TimedStore.refresh), w.ts, ttl, w.A, w.k0, reject, w.on_expired)
    vc.check(vc.is_exc(o, SD.NakSubscription), "refresh.rejection_propagates")
    vc.check(not w.present(w.A, w.k0), "refresh.rejected_entry_not_recorded")
    vc.check_eq(len(w.loop.timers), n_timers, "refresh.rejected_entry_arms_no_timer")
    vc.check_eq(w.events, [], "refresh.rejected_entry_not_reported")
    w.check_untouched("refresh_rejected", [(w.A, w.k0)])
    w.check_frame("refresh_rejected")


def ob_stop(vc):
    """stop(addr, key): a present entry is removed, its timer cancelled and its expiry
    callback called exactly once, immediately; an absent entry causes nothing"""
    w = World(vc)
    before = w.slots[(w.A, w.k0)]
    vc.body(SD.TimedStore.stop)(w.ts, w.A, w.k0)
    vc.check(not w.present(w.A, w.k0), "stop.entry_absent_afterwards")
    if before is None:
        vc.cover("absent")
        vc.check_eq(w.events, [], "stop.absent_entry_not_reported")
    else:
        vc.cover("present")
        vc.check_eq(w.events, [("expired", w.k0, w.A)], "stop.reported_once_immediately")
        if before[1] is not None:
            vc.check(before[1].cancelled_, "stop.timer_cancelled")
    vc.check_eq(len(w.loop.ready), 0, "stop.defers_nothing")
    w.check_untouched("stop", [(w.A, w.k0)])
    w.check_invariant("stop")
    w.check_frame("stop")


def ob_expired(vc):
    """the timer of an entry fires: the entry is removed and reported exactly once, before
    anything else can run (nothing deferred); every other entry and its timer is untouched;
    under the store invariant the timer always finds its entry"""
    w = World(vc)
    st = w.slots[(w.A, w.k0)]
    vc.assume(st is not None and st[1] is not None)
    fired = w.loop.fire(st[1])
    vc.check(fired, "expired.live_timer_fires")
    vc.check(not w.present(w.A, w.k0), "expired.entry_removed")
    vc.check_eq(w.events, [("expired", w.k0, w.A)], "expired.reported_exactly_once_immediately")
    vc.check_eq(len(w.loop.ready), 0, "expired.defers_nothing")
    vc.check_eq(w.loop.now, st[1].when, "expired.fires_at_its_deadline")
    w.check_untouched("expired", [(w.A, w.k0)])
    w.check_invariant("expired")
    w.check_frame("expired")
    vc.check(not w.loop.fire(st[1]), "expired.fires_at_most_once")


def _saa_head(vc, v, entering):
    vc.stash("saa.entering", entering)
    if entering:
        t = v["$target"]  # entry, (callback, handle)
        vc.stash("saa.element", (t[0], t[1][0], t[1][1]))


def _sa_modifies(vc, v):
    return [v["self"].store[v["$target"]]]


def _sa_head(vc, v, entering):
    vc.stash("sa.entering", entering)
    if entering:
        vc.stash("sa.addr", v["$target"])


LOOPS = {
    ("someip.sd.TimedStore.stop_all_for_address", 0): {"head": _saa_head},
    # frame: an iteration empties the dict of its own address only (the keys of a dict are
    # pairwise different, so that dict is still as it was when its iteration starts); any
    # other change to the store is reported by the frame check
    ("someip.sd.TimedStore.stop_all", 0): {"head": _sa_head, "modifies": _sa_modifies},
}


def ob_stop_all_for_address(vc):
    """stop_all_for_address(addr) with arbitrarily many entries under addr (loop contract):
    the address is emptied before anything is reported; an arbitrary removed entry has its
    timer cancelled and its expiry callback called exactly once, immediately; entries of
    other addresses are untouched; nothing is deferred"""
    w = World(vc)
    snap = w.native_snapshot() if vc.native else None
    o = vc.outcome(vc.body(SD.TimedStore.stop_all_for_address), w.ts, w.A)
    vc.check(o.kind != "raise", "stop_all_for_address.never_raises")
    vc.check(not w.present(w.A, w.k0) and not w.present(w.A, w.k1), "stop_all_for_address.address_emptied")
    vc.check_eq(len(w.loop.ready), 0, "stop_all_for_address.defers_nothing")
    if vc.native:
        # the whole loop on a concrete store: every entry of the address reported exactly
        # once, its timer cancelled
        gone = [(s, st) for s, st in snap if s[0] == w.A]
        vc.check_eq(sorted(repr(e) for e in w.events), sorted(repr(("expired", s[1], w.A)) for s, st in gone), "stop_all_for_address.each_removed_entry_reported_exactly_once_immediately")
        vc.check(all(st[1] is None or st[1].cancelled_ for s, st in gone), "stop_all_for_address.timers_cancelled")
    elif vc.stashed("saa.entering"):
        vc.cover("iteration")
        entry, cb, handle = vc.stashed("saa.element")
        vc.check_eq(w.events, [("expired", entry, w.A)], "stop_all_for_address.each_removed_entry_reported_exactly_once_immediately")
        if handle is not None:
            vc.cover("timer")
            vc.check(handle.cancelled_, "stop_all_for_address.timers_cancelled")
        vc.check(not w.present(w.A, entry), "stop_all_for_address.reported_entry_is_gone")
    else:
        vc.cover("exit")
        vc.check_eq(w.events, [], "stop_all_for_address.nothing_reported_beyond_the_entries")
    skip = [s for s in w.slots if s[0] == w.A]
    w.check_untouched("stop_all_for_address", skip)
    w.check_invariant("stop_all_for_address", skip_addr=w.A)
    w.check_frame("stop_all_for_address")


def ob_stop_all(vc):
    """stop_all(): for an arbitrary address, exactly stop_all_for_address; afterwards the
    store is empty"""
    w = World(vc)
    snap = w.native_snapshot() if vc.native else None
    o = vc.outcome(vc.body(SD.TimedStore.stop_all), w.ts)
    vc.check(o.kind != "raise", "stop_all.never_raises")
    vc.check_eq(len(w.loop.ready), 0, "stop_all.defers_nothing")
    w.check_frame("stop_all")
    if vc.native:
        vc.check_eq(len(w.ts.store), 0, "stop_all.store_emptied")
        gone = snap
        vc.check_eq(sorted(repr(e) for e in w.events), sorted(repr(("expired", s[1], s[0])) for s, st in gone), "stop_all.each_entry_reported_exactly_once_immediately")
        vc.check(all(st[1] is None or st[1].cancelled_ for s, st in gone), "stop_all.timers_cancelled")
        return
    if o.kind == "ret":
        vc.cover("exit")
        vc.check_eq(len(w.ts.store), 0, "stop_all.store_emptied")
        for slot in w.slots:
            vc.check(not w.present(slot[0], slot[1]), "stop_all.no_entry_left")
    elif vc.stashed("saa.entering"):
        vc.cover("entry")
        entry, cb, handle = vc.stashed("saa.element")
        vc.check_eq(w.events, [("expired", entry, vc.stashed("sa.addr"))], "stop_all.each_entry_reported_exactly_once_immediately")
        if handle is not None:
            vc.check(handle.cancelled_, "stop_all.timers_cancelled")
    else:
        vc.cover("address-done")
        vc.check_eq(w.events, [], "stop_all.nothing_reported_beyond_the_entries")
        a = vc.stashed("sa.addr")
        vc.check(not w.present(a, w.k0) and not w.present(a, w.kx), "stop_all.address_emptied")
        # frame of one iteration: the entries of every other address are still there for
        # their own iteration (otherwise they would be dropped without being reported)
        w.check_untouched("stop_all.iteration", [s_ for s_ in w.slots if s_[0] == a])


STORE_OBLIGATIONS = [ob_refresh, ob_refresh_rejected, ob_stop, ob_expired, ob_stop_all_for_address, ob_stop_all]

BOUNDED = []
