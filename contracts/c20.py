"""C20 -- decoding canonicalises: decode-encode-decode equals decode."""
import someip.header as H
from contracts import spec_header as SH
from contracts import spec_sdcodec as SC

FUNCTIONS = sorted(list(SH.CONTRACTS.keys()) + list(SC.CONTRACTS.keys()))

ASSUMPTIONS = [
    "inputs are arbitrary byte strings of arbitrary (symbolic) length; every accepted input is covered, not only mutations of valid messages",
    "SD message and configuration option: the cycle is proved per element (entry, option, configuration string) and for the header fields; the element loops of parse/build are connected to the element contracts by loop contracts (init/step/exit), the composition over the number of elements is the induction rule",
]


def ob_someip_canonical(vc):
    buf = vc.bytes("buf", hint="someip*")
    o = vc.outcome(H.SOMEIPHeader.parse, buf)
    if o.kind == "ret":
        vc.cover("decoded")
        m, rest = o.value
        b = vc.outcome(m.build)
        vc.check(b.kind == "ret", "someip.canonical.reencodes_without_error")
        if b.kind == "ret":
            vc.check_eq(b.value + rest, buf, "someip.canonical.new_bytes_equal_consumed_input")
            o2 = vc.outcome(H.SOMEIPHeader.parse, b.value)
            vc.check(o2.kind == "ret", "someip.canonical.decodes_again")
            if o2.kind == "ret":
                vc.check_eq(o2.value[0], m, "someip.canonical.equal_message")
                vc.check_eq(len(o2.value[1]), 0, "someip.canonical.nothing_left")


def ob_config_item_canonical(vc):
    """a decoded configuration string re-encodes (it fits one length byte) to the bytes it
    was read from and decodes to the same item again; also when the key is empty, the
    value is empty or contains '='"""
    nextlen = vc.int("nextlen", 1, 255)
    b = vc.bytes("b", hint="config")
    r = vc.outcome(SC.config_item_step, nextlen, b)
    if r.kind == "ret":
        vc.cover("decoded")
        item = r.value[0]
        e = vc.outcome(SC.enc_config_item, item[0], item[1])
        vc.check(e.kind == "ret", "config.canonical.item_reencodes_without_error")
        if e.kind == "ret":
            vc.check_eq(e.value, bytes([nextlen]) + b[:nextlen], "config.canonical.item_same_bytes")
            tail = vc.bytes("tail", minlen=1)
            r2 = vc.outcome(SC.config_item_step, e.value[0], e.value[1:] + tail)
            vc.check(r2.kind == "ret", "config.canonical.item_decodes_again")
            if r2.kind == "ret":
                vc.check_eq(r2.value[0], item, "config.canonical.item_equal")


def ob_sd_flags_canonical(vc):
    """the flag byte survives: reboot and unicast bits and the six undefined bits"""
    flags = vc.int("flags", 0, 255)
    h = SC.sd_header_from(flags, (), ())
    vc.check_eq(SC.sd_flags_byte(h), flags, "sd.canonical.flags_byte")
    vc.check_eq(h.flags_unknown, flags % 64, "sd.retains.unknown_flag_bits")
    vc.check(h.flags_unknown >= 0 and h.flags_unknown <= 63, "sd.canonical.unknown_bits_fit")


def canary_reserved_byte_survives(vc):
    """must be refuted: the reserved byte of a load-balancing option is NOT kept"""
    buf = vc.bytes("buf")
    vc.assume(len(buf) >= 8)
    r = vc.outcome(H.SOMEIPSDOption.parse, buf)
    if r.kind == "ret" and isinstance(r.value[0], H.SOMEIPSDLoadBalancingOption):
        vc.check_eq(r.value[0].build()[3], buf[3], "canary")
    else:
        vc.fail("canary-other")


HARNESSES = (
    SH.REFINES
    + SC.ENTRY_REFINES
    + SC.OPTION_REFINES
    + [SC.ob_config_parse_option_refines, SC.ob_config_build_refines, SC.ob_sd_parse_refines, SC.ob_sd_build_refines]
    + [ob_someip_canonical, SC.ob_entry_canonical, SC.ob_option_canonical, ob_config_item_canonical, SC.ob_config_item_roundtrip, ob_sd_flags_canonical, SC.ob_sd_layout]
    + [canary_reserved_byte_survives]
)

EXPECT_COVERS = {"ob_someip_canonical": ["decoded"], "ob_config_item_canonical": ["decoded"], "ob_option_canonical": ["decoded", "unknown"], "ob_entry_canonical": ["decoded"]}
