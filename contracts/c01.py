"""C01 -- SOME/IP message encoding round-trips and matches the wire layout."""
import struct

import someip.header as H
import someip.sd as SD
from contracts import spec_header as SH
from contracts import spec_sd as SS  # noqa: F401  (assumed contract of format_address)

FUNCTIONS = [
    "someip.header._unpack",
    "someip.header.SOMEIPHeader._parse_header",
    "someip.header.SOMEIPHeader.parse",
    "someip.header.SOMEIPHeader.build",
    "someip.sd.SOMEIPDatagramProtocol.datagram_received",
]

ASSUMPTIONS = [
    "struct.pack/unpack for '!', B, H, I, Ns as modelled in pyvc/lib.py (linear big-endian characterisation; cross-checked against CPython in the thorough tier)",
    "payloads and trailing bytes are arbitrary byte strings of arbitrary (symbolic) length",
]


def ob_layout(vc):
    """build() produces exactly the bytes of the specification layout, checked field by
    field at their specified offsets (independent reading of the emitted bytes)"""
    m = SH.gen_message(vc, "m")
    b = m.build()
    vc.check_eq(len(b), 16 + len(m.payload), "layout.total_length")
    vc.check_eq(b[0] * 256 + b[1], m.service_id, "layout.service_id@0")
    vc.check_eq(b[2] * 256 + b[3], m.method_id, "layout.method_id@2")
    vc.check_eq(((b[4] * 256 + b[5]) * 256 + b[6]) * 256 + b[7], len(m.payload) + 8, "layout.length@4")
    vc.check_eq(b[8] * 256 + b[9], m.client_id, "layout.client_id@8")
    vc.check_eq(b[10] * 256 + b[11], m.session_id, "layout.session_id@10")
    vc.check_eq(b[12], m.protocol_version, "layout.protocol_version@12")
    vc.check_eq(b[13], m.interface_version, "layout.interface_version@13")
    vc.check_eq(b[14], m.message_type.value, "layout.message_type@14")
    vc.check_eq(b[15], m.return_code.value, "layout.return_code@15")
    vc.check_eq(b[16:], m.payload, "layout.payload@16")


def ob_roundtrip(vc):
    """decoding the encoded bytes with any trailing bytes appended returns an equal message
    and exactly the trailing bytes"""
    m = SH.gen_message(vc, "m")
    rest = vc.bytes("rest")
    o = vc.outcome(H.SOMEIPHeader.parse, m.build() + rest)
    if o.kind != "ret":
        vc.fail("roundtrip.parse_raised[" + o.exc_type.__name__ + "]")
    else:
        vc.cover("parsed")
        vc.check_eq(o.value[0], m, "roundtrip.message")
        vc.check_eq(o.value[1], rest, "roundtrip.rest")


def ob_build_history(vc):
    """build() after arbitrary earlier builds -- a history of three messages with equal or
    different header fields and empty or non-empty payloads: every result is the layout of
    its own message; nothing is carried over from one call to the next (natively this is
    the search that runs when build() is found to keep state between calls)"""
    m1 = SH.gen_message(vc, "m1")
    ms = [m1]
    for name in ("m2", "m3"):
        if vc.bool(name + ".same_header_as_m1"):
            vc.cover("same-header-again")
            payload = vc.bytes(name + ".payload")
            vc.assume(len(payload) + 8 <= 0xFFFFFFFF)
            ms.append(
                H.SOMEIPHeader(
                    service_id=m1.service_id,
                    method_id=m1.method_id,
                    client_id=m1.client_id,
                    session_id=m1.session_id,
                    interface_version=m1.interface_version,
                    message_type=m1.message_type,
                    protocol_version=m1.protocol_version,
                    return_code=m1.return_code,
                    payload=payload,
                )
            )
        else:
            ms.append(SH.gen_message(vc, name))
    k = 0
    for m in ms:
        vc.same_outcome(vc.outcome(vc.body(H.SOMEIPHeader.build), m), vc.outcome(SH.someip_build, m), "build.history[" + str(k) + "].refines")
        k += 1


def ob_build_raises_iff_unfit(vc):
    """a message whose fields do not fit fails with struct.error instead of emitting bytes"""
    m = SH.gen_message(vc, "m", fits=False)
    fits = (
        0 <= m.service_id <= 0xFFFF
        and 0 <= m.method_id <= 0xFFFF
        and 0 <= m.client_id <= 0xFFFF
        and 0 <= m.session_id <= 0xFFFF
        and 0 <= m.interface_version <= 0xFF
        and 0 <= m.protocol_version <= 0xFF
        and len(m.payload) + 8 <= 0xFFFFFFFF
    )
    o = vc.outcome(m.build)
    if fits:
        vc.check(o.kind == "ret", "build.succeeds_when_fits")
    else:
        vc.cover("unfit")
        vc.check(vc.is_exc(o, struct.error), "build.struct_error_when_unfit")


# ---- datagram_received: loop contract (arbitrary iteration) ---------------------------------


def _dg_gen_data(vc, name):
    return vc.bytes("head.data")


def _dg_variant(vc, v):
    return len(v["data"])


def _dg_head(vc, v, entering):
    vc.stash("dg.data", v["data"])
    vc.stash("dg.entering", entering)


def _dg_post(vc, v):
    vc.stash("dg.after", v["data"])


def _dg_modifies(vc, v):
    """the messages of one datagram are handled by message_received, which may change the
    receiver's state; where a harness runs the real SD handler, that state (the session
    table of received ids) is completely arbitrary when the loop is reached and its
    representation invariant is checked on every write, so the state before an arbitrary
    iteration is among the states the harness starts from"""
    st = getattr(v["self"], "session_storage", None)
    return [st.incoming] if st is not None else []


LOOPS = {
    ("someip.sd.SOMEIPDatagramProtocol.datagram_received", 0): {
        "havoc": {"data": _dg_gen_data},
        "modifies": _dg_modifies,
        "variant": _dg_variant,
        "head": _dg_head,
        "post": _dg_post,
    }
}


def expected_deliveries(d):
    """spec of the whole loop (used by native replays / the bounded stand-in only)"""
    out = []
    while d:
        try:
            m, d = SH.someip_parse(H.SOMEIPHeader, d)
        except H.ParseError:
            break
        out.append(m)
    return out


def ob_datagram_iteration(vc):
    """one arbitrary iteration of the receive loop, from an arbitrary remaining buffer d:
    if d decodes to (m, rest), exactly m is delivered once (with addr and the channel flag)
    and the loop continues on exactly rest, which is strictly shorter (termination);
    if d does not decode, nothing is delivered and the function returns without raising.
    With the round-trip lemma (parse(enc(m) + rest) == (m, rest)) and induction on the
    number of messages this is 'delivered one by one, in order'."""
    prot = SD.SOMEIPDatagramProtocol()
    calls = vc.stub(prot, "message_received")
    addr = vc.opaque("addr", "addr")
    mc = vc.bool("multicast")
    data0 = vc.bytes("data0", native_from="head.data", hint="someip*")
    o = vc.outcome(vc.body(SD.SOMEIPDatagramProtocol.datagram_received), prot, data0, addr, mc)
    vc.check(o.kind != "raise", "datagram_received.never_raises")
    if vc.native:
        # a replay runs the real loop to its end: compare with the spec of the whole loop
        exp_all = expected_deliveries(data0)
        vc.check_eq([c[0] for c in calls], exp_all, "datagram_received.delivers_all_in_order")
        vc.check_eq([c[1:] for c in calls], [(addr, mc)] * len(exp_all), "datagram_received.addr_and_channel")
        return
    d = vc.stashed("dg.data")
    entering = vc.stashed("dg.entering")
    if not entering:
        vc.cover("loop-exit")
        vc.check_eq(len(d), 0, "datagram_received.exits_only_on_empty_buffer")
        vc.check_eq(len(calls), 0, "datagram_received.no_delivery_after_exit")
    else:
        exp = vc.outcome(SH.someip_parse, H.SOMEIPHeader, d)
        if exp.kind == "ret":
            vc.cover("delivered")
            vc.check(o.kind == "cut", "datagram_received.continues_after_delivery")
            vc.check_eq(len(calls), 1, "datagram_received.delivers_exactly_once")
            vc.check_eq(calls[0], (exp.value[0], addr, mc), "datagram_received.delivers_decoded_message_with_addr_and_channel")
            vc.check_eq(vc.stashed("dg.after"), exp.value[1], "datagram_received.continues_on_exactly_the_rest")
        else:
            vc.cover("rejected")
            vc.check(o.kind == "ret", "datagram_received.returns_on_undecodable_rest")
            vc.check_eq(len(calls), 0, "datagram_received.nothing_delivered_from_undecodable_rest")


def canary_length_field(vc):
    """must be refuted: claims the length field equals the payload length"""
    m = SH.gen_message(vc, "m")
    b = m.build()
    vc.check_eq(((b[4] * 256 + b[5]) * 256 + b[6]) * 256 + b[7], len(m.payload), "canary")


HARNESSES = SH.REFINES + [ob_layout, ob_roundtrip, ob_build_history, ob_build_raises_iff_unfit, ob_datagram_iteration, canary_length_field]

EXPECT_COVERS = {
    "ob_datagram_iteration": ["loop-exit", "delivered", "rejected", "SOMEIPDatagramProtocol.datagram_received.loop0.iteration"],"ob_roundtrip": ["parsed"], "ob_build_raises_iff_unfit": ["unfit"], "ob_parse_header_refines": ["accepted"]}
