"""C10 -- offer lifecycle: wait, repetition and cyclic phases; nothing follows a StopOffer."""
import asyncio

import someip.config as C
import someip.header as H
import someip.sd as SD
import someip.service as S
from contracts import looplib as LL
from contracts.common import check_frame
from contracts import spec_announce as SA
from contracts import spec_config as SCFG
from contracts import spec_sd as SS

FUNCTIONS = [
    "someip.sd.ServiceInstance.start",
    "someip.sd.ServiceInstance.stop",
    "someip.sd.ServiceInstance._offer_task",
    "someip.sd.ServiceInstance._send_offer",
    "someip.sd.ServiceInstance.matches_find",
    "someip.sd.ServiceAnnouncer.announce_service",
    "someip.sd.ServiceAnnouncer.stop_announce_service",
    "someip.sd.ServiceAnnouncer.start",
    "someip.sd.ServiceAnnouncer.stop",
    "someip.sd.ServiceAnnouncer.connection_lost",
    "someip.sd.ServiceAnnouncer.handle_findservice",
    "someip.service.SimpleService.start_announce",
    "someip.service.SimpleService.stop_announce",
    "someip.config.Service.create_offer_entry",
]
ASSUMPTIONS = [
    "a coroutine is verified as a sequential procedure (vc.drive): `await asyncio.sleep(d)` advances the virtual clock by exactly d, or raises CancelledError there if the task is cancelled; between two awaits nothing else runs (asyncio is cooperative)",
    "random.uniform(a, b) lies between a and b; the repetition count, all delays, the cyclic period and the TTL are symbolic (the repetition loop is verified by a loop contract: one arbitrary repetition k waits 2**k * base and offers once; 2**k is the uninterpreted pow2 with its defining equations); whole-trace statement = induction over the repetitions (trusted rule) from init/step/exit",
    "the cyclic phase is verified by a loop contract (one arbitrary iteration); Task.cancel() delivers CancelledError at the task's current await (event-loop model)",
    "'nothing follows a StopOffer': offers are only produced by _send_offer; it is proved to send nothing but a StopOffer once the instance is stopped, the offer task is proved to send nothing after its cancellation except the one StopOffer, and stop() is proved to clear readiness",
]
BOUNDED = []
EXPLANATION = "phases, delays and cancellation at every await are covered symbolically; one helper (SimpleService.stop_announce) is the open known finding D6, hence level other"

NATIVE_MAX_REP = 6


class IWorld:
    def __init__(self, vc, name="i"):
        self.vc = vc
        self.loop = vc.install_loop(LL.FakeLoop(vc.real(name + ".now", 0)))
        self.prot, self.sent = SS.gen_sd_protocol(vc, name + ".prot")
        self.ann = self.prot.announcer
        t = self.prot.timings
        t.INITIAL_DELAY_MIN = vc.real(name + ".initial_min", 0)
        t.INITIAL_DELAY_MAX = vc.real(name + ".initial_max", 0)
        vc.assume(t.INITIAL_DELAY_MIN <= t.INITIAL_DELAY_MAX)
        # any number of repetitions (the repetition loop is verified by a loop contract);
        # native runs execute the real loop, so they draw a small count
        t.REPETITIONS_MAX = vc.int(name + ".repetitions", 0, NATIVE_MAX_REP if vc.native else None)
        t.REPETITIONS_BASE_DELAY = vc.real(name + ".base_delay", 0)
        self.cyclic = vc.bool(name + ".cyclic")
        if self.cyclic:
            t.CYCLIC_OFFER_DELAY = vc.real(name + ".cyclic_delay", 0)
            vc.assume(t.CYCLIC_OFFER_DELAY > 0)
        else:
            t.CYCLIC_OFFER_DELAY = 0
        t.ANNOUNCE_TTL = vc.int(name + ".announce_ttl", 1, 0xFFFFFF)
        self.t = t
        self.service = SCFG.gen_service(vc, name + ".service")
        self.inst = SD.ServiceInstance(self.service, SA.ServerRecorder([], False), self.ann, t)
        self.log = []

        def on_queue(entry, remote=None):
            self.log.append(("send", entry, remote))

        self.queued = vc.stub(self.ann, "queue_send", on_queue)
        self.heap = vc.snapshot(prot=self.prot, inst=self.inst)

    def check_frame(self, label, allowed=()):
        check_frame(self.vc, self.heap, label, tuple(allowed))


def _while_head(vc, v, entering):
    vc.stash("offer.cyclic_iteration", entering)


def _for_head(vc, v, entering):
    # the repetition loop, cut at an arbitrary repetition k (entering) or left after the last one
    vc.stash("offer.repetition", (entering, v["$k"]))


# loop 0: `for i in range(REPETITIONS_MAX)` (no invariant needed: the body reads i and the
# timings only, and changes nothing but the ghost trace); loop 1: the cyclic `while True`
LOOPS = {("someip.sd.ServiceInstance._offer_task", 0): {"head": _for_head}, ("someip.sd.ServiceInstance._offer_task", 1): {"head": _while_head}}


def ob_offer_task(vc):
    """the offer task as a trace of (sleep d) / (send entry, destination) events: initial
    delay inside the window, first offer, the configured repetitions at doubling delays, then
    (cyclic) one offer per period; every offer goes to the multicast group with the
    configured TTL and the service's ids, minor version and options.  Cancelled at any await:
    nothing if still in the initial wait; afterwards nothing more except -- for a cyclic
    instance -- exactly one StopOffer; readiness is cleared."""
    w = IWorld(vc)
    inst, t = w.inst, w.t
    inst._task = LL.Task(w.loop, None)  # as start() leaves it
    restarted = vc.bool("restarted_before_cancellation_is_delivered")

    def stopped():
        # the cancellation is delivered after stop() has run: no task, not ready -- unless the
        # instance was started again in the same loop iteration (a new task is in place)
        inst._can_answer_offers = False
        if not restarted:
            inst._task = None

    w.heap = vc.snapshot(prot=w.prot, inst=inst)
    o = vc.outcome(vc.drive, vc.body(SD.ServiceInstance._offer_task)(inst), w.log, None, True, stopped)
    # the task changes the readiness flag and nothing else (inst._task: stop(), modelled above)
    w.check_frame("offer_task", ("inst._can_answer_offers", "inst._task"))
    offer = w.service.create_offer_entry(t.ANNOUNCE_TTL)
    stop_offer = w.service.create_offer_entry(0)
    log = w.log
    vc.check(len(log) >= 1, "offer_task.starts_with_the_initial_wait")
    if len(log) == 0:
        return
    if log[0] == ("cancel",):
        vc.cover("cancelled-in-initial-wait")
        vc.check_eq(log, [("cancel",)], "offer_task.cancelled_in_initial_wait.sends_nothing")
        vc.check(vc.is_exc(o, asyncio.CancelledError), "offer_task.cancellation_propagates")
        vc.check(not inst._can_answer_offers, "offer_task.cancelled_in_initial_wait.never_ready")
        return
    vc.check(log[0][0] == "sleep" and t.INITIAL_DELAY_MIN <= log[0][1] and log[0][1] <= t.INITIAL_DELAY_MAX, "offer_task.initial_delay_inside_the_window")
    expected = [("send", offer, None)]
    rep = None if vc.native else vc.stashed("offer.repetition")
    if not vc.native:
        # the loop contract: every path that gets past the initial wait reaches the repetition loop
        vc.check(rep is not None, "offer_task.reaches_the_repetition_phase")
        if rep is None:
            return
    if rep is not None and rep[0]:
        # (step) an ARBITRARY repetition k: reached with exactly the first offer sent (the
        # earlier repetitions are cut away); it waits 2**k * base and then offers exactly once
        k = rep[1]
        vc.cover("repetition")
        vc.check(k >= 0 and k < t.REPETITIONS_MAX, "offer_task.repetition.at_most_the_configured_number")
        vc.check_eq(log[1:2], expected, "offer_task.first_offer_right_after_the_initial_wait")
        vc.check(inst._can_answer_offers or ("cancel",) in log, "offer_task.ready_once_the_first_offer_is_out")
        it = log[2:]
        if ("cancel",) in it:
            vc.cover("cancelled-in-a-repetition")
            vc.check(vc.is_exc(o, asyncio.CancelledError), "offer_task.cancellation_propagates")
            vc.check(not inst._can_answer_offers, "offer_task.cancelled.not_ready_any_more")
            vc.check_eq(it[0], ("cancel",), "offer_task.cancelled.only_at_an_await")
            if w.cyclic:
                vc.check_eq(it[1:], [("send", stop_offer, None)], "offer_task.cyclic.cancelled_after_offering_sends_exactly_one_stop_offer")
            else:
                vc.check_eq(it[1:], [], "offer_task.non_cyclic.cancelled_sends_nothing_itself")
        else:
            vc.check(o.kind == "cut", "offer_task.repetition.continues_with_the_next_one")
            vc.check_eq(it, [("sleep", (2**k) * t.REPETITIONS_BASE_DELAY), ("send", offer, None)], "offer_task.repetition.waits_the_doubled_delay_then_offers_once")
        return
    if vc.native:
        for i in range(t.REPETITIONS_MAX):
            expected.append(("sleep", (2**i) * t.REPETITIONS_BASE_DELAY))
            expected.append(("send", offer, None))
    else:
        # (exit) the loop is left only after exactly REPETITIONS_MAX repetitions
        vc.check_eq(rep[1], t.REPETITIONS_MAX, "offer_task.repetition.exactly_the_configured_number")
    if vc.native and w.cyclic:
        # a replay runs the real task until it is cancelled: the cyclic phase repeats
        for _ in range(40):
            expected.append(("sleep", t.CYCLIC_OFFER_DELAY))
            expected.append(("send", offer, None))
    rest = log[1:]
    cancelled = ("cancel",) in rest
    if not cancelled:
        if w.cyclic:
            vc.cover("cyclic-iteration")
            vc.check(o.kind == "cut", "offer_task.cyclic.keeps_offering")
            expected.append(("sleep", t.CYCLIC_OFFER_DELAY))
            expected.append(("send", offer, None))
        else:
            vc.cover("finished")
            vc.check(o.kind == "ret", "offer_task.non_cyclic.ends_after_the_repetitions")
            vc.check(inst._can_answer_offers, "offer_task.non_cyclic.stays_ready_until_stopped")
        vc.check_eq(rest, expected, "offer_task.trace")
        return
    vc.cover("cancelled")
    k = rest.index(("cancel",))
    before, after = rest[:k], rest[k + 1 :]
    vc.check(vc.is_exc(o, asyncio.CancelledError), "offer_task.cancellation_propagates")
    vc.check(not inst._can_answer_offers, "offer_task.cancelled.not_ready_any_more")
    # what happened before the cancellation is a prefix of the schedule, cut at a sleep
    if vc.native or not vc.stashed("offer.cyclic_iteration"):
        vc.check_eq(before, expected[: len(before)], "offer_task.cancelled.trace_before_is_the_schedule")
        vc.check(len(before) % 2 == 1, "offer_task.cancelled.only_at_an_await")
    else:
        vc.check_eq(before, expected, "offer_task.cancelled_in_cyclic_phase.trace_before_is_the_schedule")
    if w.cyclic:
        vc.check_eq(after, [("send", stop_offer, None)], "offer_task.cyclic.cancelled_after_offering_sends_exactly_one_stop_offer")
    else:
        vc.check_eq(after, [], "offer_task.non_cyclic.cancelled_sends_nothing_itself")


def ob_instance_start_stop(vc):
    """start() arms the offer task and clears readiness; stop() cancels the task, clears
    readiness at once, releases the subscriptions and -- for a non-cyclic instance, whose
    task does not do it -- sends exactly one StopOffer"""
    w = IWorld(vc)
    inst = w.inst
    inst._can_answer_offers = vc.bool("stale_ready_flag")
    n_tasks = len(w.loop.tasks)
    vc.body(SD.ServiceInstance.start)(inst)
    vc.check(inst._task is not None and not inst._can_answer_offers, "instance.start.task_armed_not_ready")
    vc.check_eq(len(w.loop.tasks), n_tasks + 1, "instance.start.one_task")
    vc.check_eq(w.log, [], "instance.start.sends_nothing_itself")
    w.check_frame("instance.start", ("inst._can_answer_offers", "inst._task"))
    task = inst._task
    inst._can_answer_offers = vc.bool("ready_when_stopped")
    if not w.cyclic:
        # a non-cyclic offer task ends on its own after the repetitions
        task.finished = vc.bool("task_finished_on_its_own")
    vc.body(SD.ServiceInstance.stop)(inst)
    vc.check(inst._task is None, "instance.stop.no_task")
    vc.check(task.cancel_requested or task.finished, "instance.stop.task_cancelled")
    vc.check(not inst._can_answer_offers, "instance.stop.not_ready_afterwards")
    if w.cyclic:
        vc.cover("cyclic")
        vc.check_eq(w.log, [], "instance.stop.cyclic.stop_offer_left_to_the_task")
    else:
        vc.cover("non-cyclic")
        vc.check_eq(w.log, [("send", w.service.create_offer_entry(0), None)], "instance.stop.non_cyclic.exactly_one_stop_offer")
    w.check_frame("instance.stop", ("inst._can_answer_offers", "inst._task", "inst.subscriptions.store*"))
    # restart works
    o = vc.outcome(inst.start)
    vc.check(o.kind == "ret" and inst._task is not None, "instance.restart_after_stop")


def ob_announcer_lifecycle(vc):
    """announce / stop-announce / start / stop of the announcer: instances run exactly
    while the announcer is started and they are announced; stopping an already stopped
    announcer, or losing the connection after a stop, succeeds without error"""
    w = IWorld(vc)
    ann, inst = w.ann, w.inst
    started = vc.bool("announcer_started")
    ann.started = started
    w.heap = vc.snapshot(prot=w.prot, inst=inst)
    vc.body(SD.ServiceAnnouncer.announce_service)(ann, inst)
    vc.check(inst in ann.announcing_services, "announce_service.registered")
    vc.check_eq(inst._task is not None, started, "announce_service.runs_iff_announcer_started")
    if not started:
        vc.body(SD.ServiceAnnouncer.start)(ann)
        vc.check(ann.started and inst._task is not None, "announcer.start.starts_the_instances")
    o1 = vc.outcome(vc.body(SD.ServiceAnnouncer.stop), ann)
    vc.check(o1.kind == "ret" and not ann.started and inst._task is None, "announcer.stop.stops_the_instances")
    o2 = vc.outcome(vc.body(SD.ServiceAnnouncer.stop), ann)
    vc.check(o2.kind == "ret", "announcer.stop.twice_succeeds")
    o3 = vc.outcome(vc.body(SD.ServiceAnnouncer.connection_lost), ann, None)
    vc.check(o3.kind == "ret", "announcer.connection_lost_after_stop_succeeds")
    vc.check(not inst._can_answer_offers, "announcer.stop.instances_not_ready")
    w.check_frame("announcer.lifecycle", ("inst._can_answer_offers", "inst._task", "inst.subscriptions.store*", "prot.announcer.started", "prot.announcer.announcing_services"))


def ob_stop_announce_service(vc):
    w = IWorld(vc)
    ann, inst = w.ann, w.inst
    ann.started = True
    ann.announce_service(inst)
    w.heap = vc.snapshot(prot=w.prot, inst=inst)
    vc.body(SD.ServiceAnnouncer.stop_announce_service)(ann, inst)
    vc.check(inst not in ann.announcing_services, "stop_announce_service.removed")
    vc.check(inst._task is None and not inst._can_answer_offers, "stop_announce_service.instance_stopped")
    w.check_frame("stop_announce_service", ("inst._can_answer_offers", "inst._task", "inst.subscriptions.store*", "prot.announcer.announcing_services"))


class _Svc(S.SimpleService):
    service_id = 0x1234
    version_major = 1
    version_minor = 0


class _Transport:
    def get_extra_info(self, name):
        return ("127.0.0.1", 30501)

    def sendto(self, buf, addr):
        pass


def ob_simple_service_helper(vc):
    """KNOWN FINDING D6 region: stopping a service through the simple-service helper that
    started it"""
    w = IWorld(vc)
    svc = _Svc(vc.int("instance_id", 0, 0xFFFF))
    svc.transport = _Transport()
    w.ann.started = vc.bool("announcer_started")
    vc.body(S.SimpleService.start_announce)(svc, w.ann)
    vc.check_eq(len(w.ann.announcing_services), 1, "simple_service.start_announce.one_instance_announced")
    o = vc.outcome(vc.body(S.SimpleService.stop_announce), svc, w.ann)
    vc.check(o.kind == "ret", "simple_service.stop_announce@helper_passes_description_instead_of_instance.succeeds")
    vc.check_eq(len(w.ann.announcing_services), 0, "simple_service.stop_announce@helper_passes_description_instead_of_instance.withdraws_the_instance")


HARNESSES = [
    SCFG.ob_create_offer_entry_refines,
    ob_offer_task,
    ob_instance_start_stop,
    ob_announcer_lifecycle,
    ob_stop_announce_service,
    ob_simple_service_helper,
    SA.ob_send_offer,
    SA.ob_instance_matches_find,
    SA.ob_handle_findservice,
] + SA.SEND_QUEUE_OBLIGATIONS

EXPECT_COVERS = {
    "ob_offer_task": ["cancelled-in-initial-wait", "repetition", "cancelled-in-a-repetition", "cyclic-iteration", "finished", "cancelled"],
    "ob_instance_start_stop": ["cyclic", "non-cyclic"],
}
