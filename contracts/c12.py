"""C12 -- FindService is answered only by matching, ready instances, by unicast, in time."""
from contracts import spec_announce as SA
from contracts import spec_config as SCFG
from contracts import spec_sd as SS
from contracts import c10 as C10

FUNCTIONS = [
    "someip.sd.ServiceAnnouncer.queue_send",
    "someip.sd.SendCollector.*",
    "someip.sd.ServiceAnnouncer.handle_findservice",
    "someip.sd.ServiceInstance.matches_find",
    "someip.sd.ServiceInstance._send_offer",
    "someip.config.Service.matches_find",
    "someip.config.Service.create_offer_entry",
    "someip.sd.ServiceDiscoveryProtocol.sd_message_received",
]
ASSUMPTIONS = [
    "random.uniform(a, b) returns a value between a and b (axiom)",
    "event-loop model contracts/looplib.py (trusted): the delayed answer is the timer armed by call_later, the immediate one the callback queued by call_soon",
    "an instance that is stopped or not yet started is not ready (_can_answer_offers false): established by ServiceInstance.start/stop, see C10",
]
BOUNDED = []
EXPLANATION = "request ids/versions incl. every wildcard combination, channel, delay window, instance descriptions and readiness are symbolic; one to three instances are enumerated (the property's own quantifier)"
HARNESSES = [SCFG.ob_matches_find_refines, SCFG.ob_create_offer_entry_refines] + SA.FIND_OBLIGATIONS + [SS.ob_sd_message_dispatch, C10.ob_instance_start_stop, C10.ob_offer_task] + SA.SEND_QUEUE_OBLIGATIONS
EXPECT_COVERS = {"ob_handle_findservice": ["multicast", "unicast", "both", "nobody"], "ob_sd_message_dispatch": ["find"]}
