"""Shared harness generators."""


def gen_addr(vc, name):
    """a socket address as the OS hands it to datagram_received: (host, port) for IPv4,
    (host, port, flowinfo, scope_id) for IPv6; the host text is opaque"""
    port = vc.int(name + ".port", 0, 65535)
    if vc.choice(name + ".family", ("inet", "inet6")) == "inet":
        return (vc.opaque(name + ".host", "host"), port)
    return (vc.opaque(name + ".host", "host6"), port, vc.int(name + ".flowinfo", 0, 0xFFFFF), vc.int(name + ".scope_id", 0, 64))


def check_frame(vc, snap, label, allowed=()):
    """frame of an operation: of everything mutable that hangs off the objects in the
    snapshot (their attributes, and the containers in them, in place or rebound), only what
    is named in `allowed` may have changed: "a.b" is the attribute b of a (rebound, or the
    container it holds changed in place), "a.b*" everything below as well.  One obligation per
    changed path, named after it.  (Slot-level frames inside the allowed containers are stated by the harnesses
    themselves.)"""
    for p in vc.changed(snap):
        ok = False
        for a in allowed:
            if p == a or (a.endswith("*") and p.startswith(a[:-1])):
                ok = True
        if not ok and "[" not in p and "{" not in p and "." in p:
            # an attribute that the code under verification never reads anywhere (a counter
            # for statistics, a debugging aid) is not state an operation can leave behind
            # for a later one: outside what a frame is about
            attr = p.split(".")[-1]
            if not vc.attr_is_read(attr):
                ok = True
        vc.check(ok, label + ".frame[" + p + "]")
