"""Shared harness generators."""


def gen_addr(vc, name):
    """a socket address as the OS hands it to datagram_received: (host, port) for IPv4,
    (host, port, flowinfo, scope_id) for IPv6; the host text is opaque"""
    port = vc.int(name + ".port", 0, 65535)
    if vc.choice(name + ".family", ("inet", "inet6")) == "inet":
        return (vc.opaque(name + ".host", "host"), port)
    return (vc.opaque(name + ".host", "host6"), port, vc.int(name + ".flowinfo", 0, 0xFFFFF), vc.int(name + ".scope_id", 0, 64))
