"""C13 -- FindService is sent only for watched services not yet found, bounded in number."""
import asyncio

import someip.config as C
import someip.header as H
import someip.sd as SD
from contracts import looplib as LL
from contracts.common import check_frame
from contracts import spec_config as SCFG
from contracts import spec_sd as SS
from contracts import c05 as C05

FUNCTIONS = [
    "someip.sd.ServiceDiscover.send_find_services",
    "someip.sd.ServiceDiscover._service_found",
    "someip.sd.ServiceDiscover.start",
    "someip.sd.ServiceDiscover.watch_service",
    "someip.sd.ServiceDiscover.watch_all_services",
    "someip.sd.ServiceDiscover.stop_watch_service",
    "someip.sd.ServiceDiscover.stop_watch_all_services",
    "someip.config.Service.create_find_entry",
    "someip.config.Service.matches_service",
    "someip.sd.TimedStore.entries",
]
ASSUMPTIONS = [
    "coroutine as sequential procedure (vc.drive): each `await asyncio.sleep(d)` advances the clock by d; during every sleep the set of known offers changes arbitrarily (interference hook), so the entries are proved to be computed from the state at that instant",
    "random.uniform(a, b) lies between a and b; send_sd observed as a call (no remote argument = multicast group)",
    "repetition count, delays and TTL symbolic: the repetition loop is verified by a loop contract (one arbitrary repetition k waits 2**k * base -- pow2 uninterpreted with its defining equations --, may end the task, otherwise sends its round; left after exactly REPETITIONS_MAX repetitions); the statement about the whole trace is the induction over the repetitions (trusted rule)",
]
BOUNDED = []
EXPLANATION = "the find task is verified as a trace for every timing configuration, arbitrarily many watched filters (comprehension contract: an arbitrary filter contributes its FindService entry iff it has no live offer at that instant) and every change of the known offers between rounds"


class _L(SD.ClientServiceListener):
    VC_MODEL = True  # environment model (write-only recorder): outside the frames of loop contracts

    pass


def _gen_filter(vc, name):
    return SCFG.gen_service(vc, name, with_options=False)


def _gen_listeners(vc, name, key):
    return {_L()}


# ---- contract of the comprehension in _build_entries (ARBITRARILY MANY watched filters):
#   element : an arbitrary watched filter contributes exactly its FindService entry (with the
#             configured TTL) iff no live offer matches it now, and nothing otherwise
#   exit    : the round's list is empty iff no watched filter is missing (semantics of a
#             filtered comprehension over the element contract)


def _be_head(vc, v, entering):
    st = vc.stashed("sfs")
    if not entering:
        vc.assume((v["$result_len"] > 0) == st["missing"][st["round"]])


def _be_post(vc, v):
    st = vc.stashed("sfs")
    st["element"] = (v["service"], v["$included"], v["$elt"])


def _be_result(vc, res):
    st = vc.stashed("sfs")
    st["lists"].append(res)


# ---- contract of the repetition loop (ARBITRARILY MANY repetitions): cut at an arbitrary
#   repetition k (0 <= k < REPETITIONS_MAX); it waits 2**k * base, computes the round from the
#   offers known then, ends the task if nothing is missing (may_exit) and sends the list
#   otherwise; the loop is left after exactly REPETITIONS_MAX repetitions


def _rep_head(vc, v, entering):
    st = vc.stashed("sfs")
    st["rep"] = (entering, v["$k"])


LOOPS = {
    ("someip.sd.ServiceDiscover.send_find_services/_build_entries", "comp", 0): {"head": _be_head, "post": _be_post, "result": _be_result},
    ("someip.sd.ServiceDiscover.send_find_services", 0): {"head": _rep_head, "may_exit": True},
}


def ob_send_find_services(vc):
    """the find task for ARBITRARILY MANY watched filters: initial wait inside the window,
    then rounds at doubling delays; each round is computed from the offers known at that
    instant (they change arbitrarily during every wait), goes to the multicast group, holds
    exactly the watched filters without a live offer (element contract of the comprehension)
    and the task ends at the first round in which nothing is missing, at the latest after
    1 + REPETITIONS_MAX rounds"""
    loop = vc.install_loop(LL.FakeLoop(vc.real("now", 0)))
    prot, sent = SS.gen_sd_protocol(vc, "prot")
    disc = prot.discovery
    t = prot.timings
    t.INITIAL_DELAY_MIN = vc.real("initial_min", 0)
    t.INITIAL_DELAY_MAX = vc.real("initial_max", 0)
    vc.assume(t.INITIAL_DELAY_MIN <= t.INITIAL_DELAY_MAX)
    # any number of repetitions (loop contract); native runs execute the real loop
    t.REPETITIONS_MAX = vc.int("repetitions", 0, 6 if vc.native else None)
    t.REPETITIONS_BASE_DELAY = vc.real("base_delay", 0)
    t.FIND_TTL = vc.int("find_ttl", 1, 0xFFFFFF)
    disc.watched_services = vc.lazy_dict("watched", _gen_listeners, _gen_filter, default=set)
    log = []
    # per round: is any watched filter without a live offer?  (arbitrary: offers and
    # stop-offers arrive while the task sleeps)
    st = {"round": -1, "missing": [vc.bool("missing_in_round_" + str(k)) for k in range(2)], "lists": [], "element": None, "found": None, "asked": [], "rep": None}
    vc.stash("sfs", st)

    def on_send(entries, remote=None):
        log.append(("find", entries, remote))

    vc.stub(prot, "send_sd", on_send)

    filters = list(disc.watched_services.keys()) if vc.native else []
    flags = []  # native runs: per round, for EVERY watched filter, whether a live offer matches now

    def interference(k, d):
        st["round"] = st["round"] + 1
        if vc.native:
            flags.append([vc.bool("found_" + str(st["round"]) + "_" + str(j)) for j in range(len(filters))])

    def service_found(service):
        # contract of _service_found (ob_service_found): some live offer matches the filter.
        # If nothing is missing in this round, every watched filter is found.
        if vc.native:
            found = flags[st["round"]][[j for j in range(len(filters)) if filters[j] is service][0]]
        else:
            found = vc.bool("found_" + str(len(st["asked"])))
            if not st["missing"][st["round"]]:
                vc.assume(found)
        st["asked"].append((st["round"], service, found))
        st["found"] = found
        return found

    vc.stub(disc, "_service_found", service_found)
    heap = vc.snapshot(prot=prot)
    o = vc.outcome(vc.drive, vc.body(SD.ServiceDiscover.send_find_services)(disc), log, interference, False)
    vc.check(o.kind != "raise", "send_find_services.never_raises")
    check_frame(vc, heap, "send_find_services", ())
    if len(disc.watched_services) == 0:
        vc.cover("nothing-watched")
        vc.check_eq(log, [], "send_find_services.nothing_watched_nothing_sent")
        return
    vc.check(len(log) >= 1 and log[0][0] == "sleep" and t.INITIAL_DELAY_MIN <= log[0][1] and log[0][1] <= t.INITIAL_DELAY_MAX, "send_find_services.initial_delay_inside_the_window")
    if vc.native:
        # a replay runs the real task on a concrete set of filters: the trace is exactly
        # wait, round, wait, round ... with the entries of the filters not found at that instant
        expected = []
        done = False
        for k in range(1 + t.REPETITIONS_MAX):
            if done:
                break
            expected.append(("sleep", None if k == 0 else (2 ** (k - 1)) * t.REPETITIONS_BASE_DELAY))
            if k >= len(flags):
                break
            # every watched filter without a live offer at this instant -- whether or not the
            # task asked about it
            missing = [filters[j].create_find_entry(t.FIND_TTL) for j in range(len(filters)) if not flags[k][j]]
            if len(missing) == 0:
                done = True
            else:
                expected.append(("find", missing, None))
        vc.check_eq(len(log), len(expected), "send_find_services.number_of_rounds_and_waits")
        if len(log) == len(expected):
            for i in range(1, len(expected)):
                if expected[i][0] == "sleep":
                    vc.check_eq(log[i], expected[i], "send_find_services.repetition_delays_double")
                else:
                    vc.check_eq((log[i][0], list(log[i][1]), log[i][2]), expected[i], "send_find_services.entries_are_exactly_the_watched_services_not_found_now")
        return
    # the schedule up to the point this path has reached: the first round (index 0) and, if
    # the repetition loop was entered, ONE arbitrary repetition rep[1] (index 1 on this path;
    # the repetitions before it are cut away)
    rep = st["rep"]
    vc.check(st["round"] <= 1 and (st["round"] == 1) == (rep is not None and rep[0]), "send_find_services.one_wait_per_round")
    if st["round"] > 1:
        return
    if rep is not None and rep[0]:
        vc.cover("repetition")
        vc.check(rep[1] >= 0 and rep[1] < t.REPETITIONS_MAX, "send_find_services.bounded_number_of_rounds")
        vc.check(st["missing"][0], "send_find_services.no_round_after_everything_was_found")
    expected = []
    rounds = 0
    ended = False
    for k in range(st["round"] + 1):
        expected.append(("sleep", None if k == 0 else (2 ** rep[1]) * t.REPETITIONS_BASE_DELAY))
        if k < len(st["lists"]):
            # this round's list was computed completely
            if st["missing"][k]:
                expected.append(("find", st["lists"][k], None))
                rounds += 1
            else:
                ended = True
    vc.check_eq(len(log), len(expected), "send_find_services.number_of_rounds_and_waits")
    if len(log) == len(expected):
        for i in range(1, len(expected)):
            if expected[i][0] == "sleep":
                vc.check_eq(log[i], expected[i], "send_find_services.repetition_delays_double")
            else:
                vc.check_eq(log[i][0], "find", "send_find_services.round_is_a_find_message")
                vc.check_eq(log[i][2], None, "send_find_services.sent_to_the_multicast_group")
                vc.check(log[i][1] is expected[i][1], "send_find_services.sends_exactly_the_list_computed_for_this_round")
    if o.kind == "cut" and st["element"] is None:
        # the cut of the repetition loop: this repetition's round was sent, the next follows
        vc.cover("repetition-continues")
        vc.check(rep is not None and rep[0] and not ended and len(st["lists"]) == 2, "send_find_services.repetition_sends_its_round_while_something_is_missing")
        return
    if o.kind == "cut":
        vc.cover("element")
        service, included, elt = st["element"]
        vc.check(not ended, "send_find_services.no_round_after_everything_was_found")
        vc.check_eq(included, not st["found"], "send_find_services.entries_are_exactly_the_watched_services_not_found_now")
        if included:
            vc.check_eq(elt, service.create_find_entry(t.FIND_TTL), "send_find_services.entry_is_the_filters_find_entry_with_the_configured_ttl")
        return
    vc.check(o.kind == "ret", "send_find_services.ends_normally")
    if ended:
        vc.cover("all-found")
        vc.check_eq(len(st["lists"]), st["round"] + 1, "send_find_services.ends_at_the_first_round_with_nothing_missing")
    else:
        vc.cover("all-rounds")
        # the task ends with something still missing only after the last repetition
        vc.check(rep is not None and not rep[0], "send_find_services.all_rounds_used_while_something_is_missing")
        if rep is not None:
            vc.check_eq(rep[1], t.REPETITIONS_MAX, "send_find_services.all_rounds_used_while_something_is_missing")


def ob_service_found(vc):
    """_service_found(filter) over a store with ARBITRARILY MANY offers from arbitrarily many
    sources: True only if some stored offer matches the filter (the witness the quantifier
    produced is in the store and matches); False only if no stored offer matches -- shown for
    the tracked entries and for one ARBITRARY entry of the store"""
    w = C05.DWorld(vc, register=False, track=("X_Sx",))  # (X, Sx): an arbitrary entry of the store
    f = SCFG.gen_service(vc, "F", with_options=False)
    heap = vc.snapshot(prot=w.prot)
    r = vc.body(SD.ServiceDiscover._service_found)(w.disc, f)
    check_frame(vc, heap, "_service_found", ())
    if vc.native:
        exp = False
        for addr, services in w.disc.found_services.store.items():
            for s in services:
                exp = exp or f.matches_service(s)
        vc.check_eq(r, exp, "_service_found.iff_some_live_offer_matches")
        return
    if r:
        vc.cover("found")
        ws = vc.witnesses()
        vc.check(len(ws) == 2, "_service_found.true_has_a_witness")
        if len(ws) == 2:
            addr, inner = ws[0]
            service = ws[1][0]
            vc.check(w.present(addr, service), "_service_found.true_only_for_a_stored_offer")
            vc.check(f.matches_service(service), "_service_found.true_only_if_that_offer_matches")
    else:
        vc.cover("not-found")
        for slot, st in w.slots.items():
            if st is not None:
                vc.cover("stored-offer")
                vc.check(not f.matches_service(slot[1]), "_service_found.false_only_if_no_stored_offer_matches")


def canary_not_found_means_empty_store(vc):
    """must be refuted: 'no stored offer matches the filter' does not mean 'nothing is stored'
    (guards the quantifier treatment of any() against vacuity)"""
    w = C05.DWorld(vc, register=False, track=("X_Sx",))
    f = SCFG.gen_service(vc, "F", with_options=False)
    r = w.disc._service_found(f)
    if not vc.native and not r:
        vc.check(w.slots[(w.X, w.Sx)] is None, "canary")


def ob_discover_start(vc):
    loop = vc.install_loop(LL.FakeLoop(vc.real("now", 0)))
    prot, sent = SS.gen_sd_protocol(vc, "prot")
    disc = prot.discovery
    heap = vc.snapshot(prot=prot)
    vc.body(SD.ServiceDiscover.start)(disc)
    check_frame(vc, heap, "discover.start", ("prot.discovery.task",))
    vc.check(disc.task is not None and len(loop.tasks) == 1, "discover.start.creates_the_find_task")
    vc.check_eq(len(sent), 0, "discover.start.sends_nothing_itself")


def ob_only_start_creates_the_find_task(vc):
    """'at most the configured number of repetitions' is per start(): the find rounds are
    produced by the task start() creates and by nothing else.  Registering or unregistering
    listeners -- before start, while the rounds run, or after they are over -- creates no
    task, leaves the task alone and sends nothing."""
    op = vc.choice("op", ("watch_service", "watch_all_services", "stop_watch_service", "stop_watch_all_services"))
    w = C05.DWorld(vc, register=op.startswith("stop"), track=())
    state = vc.choice("discovery", ("not-started", "rounds-running", "rounds-over"))
    if state != "not-started":
        w.disc.task = LL.Task(w.loop, None)
        w.disc.task.finished = state == "rounds-over"
    task0 = w.disc.task
    tasks0 = len(w.loop.tasks)
    sent0 = len(w.sent)
    vc.cover(op + "/" + state)
    if op == "watch_service":
        o = vc.outcome(vc.body(SD.ServiceDiscover.watch_service), w.disc, w.F, w.L)
    elif op == "watch_all_services":
        o = vc.outcome(vc.body(SD.ServiceDiscover.watch_all_services), w.disc, w.Lall)
    elif op == "stop_watch_service":
        o = vc.outcome(vc.body(SD.ServiceDiscover.stop_watch_service), w.disc, w.F, w.L)
    else:
        vc.assume(w.all_registered)
        o = vc.outcome(vc.body(SD.ServiceDiscover.stop_watch_all_services), w.disc, w.Lall)
    vc.check(w.disc.task is task0, op + ".leaves_the_find_task_alone")
    vc.check_eq(len(w.loop.tasks), tasks0, op + ".creates_no_task")
    vc.check_eq(len(w.sent), sent0, op + ".sends_nothing")
    if task0 is not None:
        vc.check(not task0.cancel_requested, op + ".does_not_cancel_the_find_task")


HARNESSES = [ob_only_start_creates_the_find_task, SCFG.ob_create_find_entry_refines, SCFG.ob_matches_service_refines, ob_service_found, ob_send_find_services, ob_discover_start, C05.ob_handle_offer, C05.ob_expiry, canary_not_found_means_empty_store]
EXPECT_COVERS = {"ob_send_find_services": ["nothing-watched", "all-found", "all-rounds", "element", "repetition", "repetition-continues"], "ob_service_found": ["found", "not-found", "stored-offer"], "ob_only_start_creates_the_find_task": ["watch_service/rounds-over", "watch_service/rounds-running", "stop_watch_service/rounds-over", "watch_all_services/rounds-over"]}
