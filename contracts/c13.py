"""C13 -- FindService is sent only for watched services not yet found, bounded in number."""
import asyncio

import someip.config as C
import someip.header as H
import someip.sd as SD
from contracts import looplib as LL
from contracts.common import check_frame
from contracts import spec_config as SCFG
from contracts import spec_sd as SS
from contracts import c05 as C05

FUNCTIONS = [
    "someip.sd.ServiceDiscover.send_find_services",
    "someip.sd.ServiceDiscover._service_found",
    "someip.sd.ServiceDiscover.start",
    "someip.config.Service.create_find_entry",
    "someip.config.Service.matches_service",
    "someip.sd.TimedStore.entries",
]
ASSUMPTIONS = [
    "coroutine as sequential procedure (vc.drive): each `await asyncio.sleep(d)` advances the clock by d; during every sleep the set of known offers changes arbitrarily (interference hook), so the entries are proved to be computed from the state at that instant",
    "random.uniform(a, b) lies between a and b; send_sd observed as a call (no remote argument = multicast group)",
    "repetition count 0..4 enumerated (the property's own bound); delays and TTL symbolic",
]
BOUNDED = ["zero to two watched filters (the property quantifies over one to four; three already take 13 minutes; ids/versions incl. wildcards symbolic); repetition count enumerated 0..4 (the property's own bound)"]
EXPLANATION = "the find task is verified as a trace for every timing configuration and every change of the known offers between rounds; the number of watched filters is bounded in shape (bounded_stand_ins)"


class _L(SD.ClientServiceListener):
    VC_MODEL = True  # environment model (write-only recorder): outside the frames of loop contracts

    pass


def ob_send_find_services(vc):
    loop = vc.install_loop(LL.FakeLoop(vc.real("now", 0)))
    prot, sent = SS.gen_sd_protocol(vc, "prot")
    disc = prot.discovery
    t = prot.timings
    t.INITIAL_DELAY_MIN = vc.real("initial_min", 0)
    t.INITIAL_DELAY_MAX = vc.real("initial_max", 0)
    vc.assume(t.INITIAL_DELAY_MIN <= t.INITIAL_DELAY_MAX)
    t.REPETITIONS_MAX = vc.choice("repetitions", (0, 1, 2, 3, 4))
    t.REPETITIONS_BASE_DELAY = vc.real("base_delay", 0)
    t.FIND_TTL = vc.int("find_ttl", 1, 0xFFFFFF)
    n = vc.choice("watched", (0, 1, 2))
    filters = [SCFG.gen_service(vc, "F" + str(j), with_options=False) for j in range(n)]
    for a in range(n):
        for b in range(a + 1, n):
            vc.assume(filters[a].service_id != filters[b].service_id)
    for f in filters:
        disc.watched_services[f].add(_L())
    A = vc.opaque("A", "addr")
    log = []
    found_at = []  # per sleep: which filters have a matching live offer afterwards

    def on_send(entries, remote=None):
        log.append(("find", list(entries), remote))

    vc.stub(prot, "send_sd", on_send)

    def interference(k, d):
        # while the task sleeps, offers and stop-offers arrive: any subset may be known now
        found_at.append([vc.bool("known_" + str(k) + "_" + str(j)) for j in range(n)])

    def service_found(service):
        # contract of _service_found (ob_service_found): some live offer matches the filter
        flags = found_at[len(found_at) - 1]
        for j in range(n):
            if service is filters[j]:
                return flags[j]
        vc.fail("send_find_services.asks_about_a_service_that_is_not_watched")
        return True

    vc.stub(disc, "_service_found", service_found)

    heap = vc.snapshot(prot=prot)
    o = vc.outcome(vc.drive, vc.body(SD.ServiceDiscover.send_find_services)(disc), log, interference, False)
    vc.check(o.kind == "ret", "send_find_services.ends_normally")
    check_frame(vc, heap, "send_find_services", ())
    if n == 0:
        vc.cover("nothing-watched")
        vc.check_eq(log, [], "send_find_services.nothing_watched_nothing_sent")
        return
    # expected trace: rounds until every watched service is found or the repetitions are used up
    expected = []
    rounds = 0
    stopped = False
    for k in range(1 + t.REPETITIONS_MAX):
        if stopped:
            break
        if k < len(found_at):
            flags = found_at[k]
        else:
            vc.fail("send_find_services.too_few_rounds")
            return
        delay = None if k == 0 else (2 ** (k - 1)) * t.REPETITIONS_BASE_DELAY
        expected.append(("sleep", delay))
        missing = [filters[j].create_find_entry(t.FIND_TTL) for j in range(n) if not flags[j]]
        if len(missing) == 0:
            stopped = True
        else:
            expected.append(("find", missing, None))
            rounds += 1
    if stopped:
        vc.cover("all-found")
    if rounds == 1 + t.REPETITIONS_MAX and t.REPETITIONS_MAX > 0:
        vc.cover("all-rounds")
    vc.check_eq(len(log), len(expected), "send_find_services.number_of_rounds_and_waits")
    if len(log) != len(expected):
        return
    vc.check(log[0][0] == "sleep" and t.INITIAL_DELAY_MIN <= log[0][1] and log[0][1] <= t.INITIAL_DELAY_MAX, "send_find_services.initial_delay_inside_the_window")
    for i in range(1, len(expected)):
        if expected[i][0] == "sleep":
            vc.check_eq(log[i], expected[i], "send_find_services.repetition_delays_double")
        else:
            vc.check_eq(log[i][0], "find", "send_find_services.round_is_a_find_message")
            vc.check_eq(log[i][2], None, "send_find_services.sent_to_the_multicast_group")
            vc.check_eq(log[i][1], expected[i][1], "send_find_services.entries_are_exactly_the_watched_services_not_found_now")
    vc.check(rounds <= 1 + t.REPETITIONS_MAX, "send_find_services.bounded_number_of_rounds")


def ob_service_found(vc):
    """_service_found(filter): true iff some stored offer (any source) matches the filter"""
    loop = vc.install_loop(LL.FakeLoop(vc.real("now", 0)))
    prot, sent = SS.gen_sd_protocol(vc, "prot")
    disc = prot.discovery
    f = SCFG.gen_service(vc, "F", with_options=False)
    A = vc.opaque("A", "addr")
    B = vc.opaque("B", "addr")
    vc.assume(A != B)
    stored = []
    for name, addr in (("s0", A), ("s1", A), ("s2", B)):
        if vc.bool(name + ".present"):
            s = SCFG.gen_service(vc, name, with_options=False)
            for other in stored:
                vc.assume(other.service_id != s.service_id)
            disc.found_services.store[addr][s] = (disc._notify_service_stopped, None)
            stored.append(s)
    heap = vc.snapshot(prot=prot)
    r = vc.body(SD.ServiceDiscover._service_found)(disc, f)
    check_frame(vc, heap, "_service_found", ())
    exp = False
    for s in stored:
        exp = exp or f.matches_service(s)
    vc.check_eq(r, exp, "_service_found.iff_some_live_offer_matches")


def ob_discover_start(vc):
    loop = vc.install_loop(LL.FakeLoop(vc.real("now", 0)))
    prot, sent = SS.gen_sd_protocol(vc, "prot")
    disc = prot.discovery
    heap = vc.snapshot(prot=prot)
    vc.body(SD.ServiceDiscover.start)(disc)
    check_frame(vc, heap, "discover.start", ("prot.discovery.task",))
    vc.check(disc.task is not None and len(loop.tasks) == 1, "discover.start.creates_the_find_task")
    vc.check_eq(len(sent), 0, "discover.start.sends_nothing_itself")


HARNESSES = [SCFG.ob_create_find_entry_refines, SCFG.ob_matches_service_refines, ob_service_found, ob_send_find_services, ob_discover_start, C05.ob_handle_offer, C05.ob_expiry]
EXPECT_COVERS = {"ob_send_find_services": ["nothing-watched", "all-found", "all-rounds"]}
