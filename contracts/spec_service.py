"""Contracts for someip.service (method-call handling)."""
import someip.header as H
import someip.service as S
from contracts.common import check_frame
from contracts import spec_header as SH

E = H.SOMEIPReturnCode
MT = H.SOMEIPMessageType


def reply_header(msg, message_type, return_code, payload):
    """a reply carries the request's service, method, client and session ids, its
    interface (and protocol) version, and the given type, return code and payload"""
    return H.SOMEIPHeader(
        service_id=msg.service_id,
        method_id=msg.method_id,
        client_id=msg.client_id,
        session_id=msg.session_id,
        interface_version=msg.interface_version,
        protocol_version=msg.protocol_version,
        message_type=message_type,
        return_code=return_code,
        payload=payload,
    )


def send_error_response(self, msg, addr, return_code):
    self.send(SH.enc_someip(reply_header(msg, MT.ERROR, return_code, b"")), addr)


def send_positive_response(self, msg, addr, payload=b""):
    self.send(SH.enc_someip(reply_header(msg, MT.RESPONSE, msg.return_code, payload)), addr)


CONTRACTS = {
    "someip.service.SimpleService.send_error_response": send_error_response,
    "someip.service.SimpleService.send_positive_response": send_positive_response,
}


class _Svc(S.SimpleService):
    service_id = 0x1234
    version_major = 1
    version_minor = 0


def gen_service_endpoint(vc, name):
    """a service endpoint with symbolic service id / major version and a recording transport"""
    svc = _Svc(vc.int(name + ".instance_id", 0, 0xFFFF))
    svc.service_id = vc.int(name + ".service_id", 0, 0xFFFF)
    svc.version_major = vc.int(name + ".version_major", 0, 0xFF)
    transport = vc.opaque(name + ".transport", "transport")
    sent = vc.stub(transport, "sendto")
    svc.transport = transport
    return svc, sent


def ob_send_error_response_refines(vc):
    a, sent_a = gen_service_endpoint(vc, "svc")
    msg = SH.gen_message(vc, "msg")
    addr = vc.opaque("addr", "addr")
    rc = SH.gen_enum(vc, "rc", H.SOMEIPReturnCode, SH.RETURN_CODES)
    n0 = len(sent_a)
    heap = vc.snapshot(svc=a)
    o1 = vc.outcome(vc.body(S.SimpleService.send_error_response), a, msg, addr, rc)
    check_frame(vc, heap, "send_error_response", ())
    got = sent_a[n0:]
    n1 = len(sent_a)
    o2 = vc.outcome(send_error_response, a, msg, addr, rc)
    vc.same_outcome(o1, o2, "send_error_response.refines")
    vc.check_eq(got, sent_a[n1:], "send_error_response.refines.sent")


def ob_send_positive_response_refines(vc):
    a, sent_a = gen_service_endpoint(vc, "svc")
    msg = SH.gen_message(vc, "msg")
    addr = vc.opaque("addr", "addr")
    payload = vc.bytes("payload")
    vc.assume(len(payload) + 8 <= 0xFFFFFFFF)
    heap = vc.snapshot(svc=a)
    o1 = vc.outcome(vc.body(S.SimpleService.send_positive_response), a, msg, addr, payload)
    check_frame(vc, heap, "send_positive_response", ())
    got = sent_a[0:]
    n1 = len(sent_a)
    o2 = vc.outcome(send_positive_response, a, msg, addr, payload)
    vc.same_outcome(o1, o2, "send_positive_response.refines")
    vc.check_eq(got, sent_a[n1:], "send_positive_response.refines.sent")


REFINES = [ob_send_error_response_refines, ob_send_positive_response_refines]
