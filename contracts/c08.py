"""C08 -- outgoing session ids count 1..0xFFFF per destination; reboot flag clears on wrap."""
import someip.sd as SD
from contracts import spec_sd as SS
from contracts import c17 as C17
from contracts.common import gen_addr

FUNCTIONS = ["someip.sd._SessionStorage.assign_outgoing", "someip.sd.ServiceDiscoveryProtocol.send_sd", "someip.service.SimpleEventgroup._notify_single"]

ASSUMPTIONS = [
    "representation invariant of the outgoing table: every stored id is in 1..0xFFFF (established by the default (True, 1), preserved: obligation map-invariant[st.outgoing])",
    "a destination is identified by the `remote` argument (None = multicast default)",
    "threading.Lock is a mutex (the lock clause checks that every access to the table happens while it is held)",
]


def seq_value(k):
    """closed form of the k-th pair handed out to one destination, k >= 1"""
    return (k <= 0xFFFF, ((k - 1) % 0xFFFF) + 1)


def ob_lemma_sequence_base(vc):
    vc.check_eq(SS.default_session(), seq_value(1), "sequence.base")


def ob_lemma_sequence_step(vc):
    """induction step over the contract: if the table holds the k-th value, the call hands
    it out and leaves the (k+1)-th; with the base case this gives 1,2,..,0xFFFF,1,2,..
    (never 0, no gap, no repeat within a cycle) and the flag exactly before the first wrap"""
    k = vc.int("k", 1, None)
    cur = seq_value(k)
    vc.check_eq(SS.next_session(cur), seq_value(k + 1), "sequence.step")
    vc.check(cur[1] >= 1 and cur[1] <= 0xFFFF, "sequence.never_zero")


def ob_lemma_independent_destinations(vc):
    """traffic to another destination does not disturb a destination's sequence"""
    a, b = SS.gen_storage(vc, "st")
    r1 = gen_addr(vc, "r1")
    r2 = gen_addr(vc, "r2")
    vc.assume(r1 != r2)
    before = a.outgoing.get(r1, SS.default_session())
    a.assign_outgoing(r2)
    a.assign_outgoing(None)
    got = a.assign_outgoing(r1)
    vc.check_eq(got, before, "independent.other_destinations_do_not_interfere")


def canary_wrap_keeps_flag(vc):
    """must be refuted: claims the flag survives the wrap"""
    k = vc.int("k", 1, None)
    cur = seq_value(k)
    vc.check_eq(SS.next_session(cur)[0], cur[0], "canary")


HARNESSES = SS.SEND_SD_OBLIGATIONS + [C17.ob_notify_single] + [
    SS.ob_assign_outgoing_refines,
    SS.ob_assign_outgoing_twice,
    ob_lemma_sequence_base,
    ob_lemma_sequence_step,
    ob_lemma_independent_destinations,
    canary_wrap_keeps_flag,
]
