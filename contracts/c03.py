"""C03 -- malformed or foreign input is rejected cleanly and changes nothing."""
import someip.header as H
import someip.sd as SD
import someip.service as S
from contracts import c01 as C01
from contracts import c16 as C16
from contracts import spec_header as SH
from contracts import spec_sd as SS
from contracts import spec_sdcodec as SC

LOOPS = {}
LOOPS.update(C01.LOOPS)

FUNCTIONS = [
    "someip.header.SOMEIPSDHeader.resolve_options",
    "someip.header.SOMEIPSDEntry.resolve_options",
    "someip.header._unpack",
    "someip.header.SOMEIPHeader.parse",
    "someip.header.SOMEIPHeader._parse_header",
    "someip.header.SOMEIPSDEntry.parse",
    "someip.header.SOMEIPSDOption.parse",
    "someip.header.SOMEIPSDLoadBalancingOption.parse_option",
    "someip.header.SOMEIPSDConfigOption.parse_option",
    "someip.header.AbstractIPOption.parse_option",
    "someip.header.SOMEIPSDHeader.parse",
    "someip.sd.SOMEIPDatagramProtocol.datagram_received",
    "someip.sd.ServiceDiscoveryProtocol.message_received",
    "someip.sd.ServiceDiscoveryProtocol.sd_message_received",
    "someip.service.SimpleService.message_received",
]

ASSUMPTIONS = [
    "buffers are arbitrary byte strings of arbitrary (symbolic) length",
    "format_address/getnameinfo on the OS-supplied peer address, warnings.warn, logging and listener code do not raise (assumed)",
    "callers of SOMEIPSDHeader.parse see it through its contract: any header, or ParseError/IncompleteReadError/UnicodeDecodeError",
]


def _suffix(vc, buf, rest, label):
    vc.check(len(rest) <= len(buf), label + ".rest_not_longer_than_input")
    vc.check_eq(buf[len(buf) - len(rest) :], rest, label + ".rest_is_a_suffix_of_the_input")


def _decoder(vc, o, buf, label, unicode_ok=False):
    if o.kind == "ret":
        vc.cover("decoded")
        return True
    if o.kind == "cut":
        return False
    ok = vc.is_exc(o, H.ParseError) or (unicode_ok and vc.is_exc(o, UnicodeDecodeError))
    vc.check(ok, label + ".only_parse_errors_escape[" + o.exc_type.__name__ + "]")
    return False


def ob_someip_parse_clean(vc):
    buf = vc.bytes("buf", hint="someip*")
    o = vc.outcome(vc.body(H.SOMEIPHeader.parse), buf)
    if _decoder(vc, o, buf, "SOMEIPHeader.parse"):
        _suffix(vc, buf, o.value[1], "SOMEIPHeader.parse")


def ob_entry_parse_clean(vc):
    buf = vc.bytes("buf")
    o = vc.outcome(vc.body(H.SOMEIPSDEntry.parse), buf, vc.int("num_options", 0, None))
    if _decoder(vc, o, buf, "SOMEIPSDEntry.parse"):
        _suffix(vc, buf, o.value[1], "SOMEIPSDEntry.parse")


def ob_option_parse_clean(vc):
    buf = vc.bytes("buf", hint="option")
    o = vc.outcome(vc.body(H.SOMEIPSDOption.parse), buf)
    if _decoder(vc, o, buf, "SOMEIPSDOption.parse", unicode_ok=True):
        _suffix(vc, buf, o.value[1], "SOMEIPSDOption.parse")


def ob_option_payload_parsers_clean(vc):
    buf = vc.bytes("buf")
    cls = vc.choice("class", SC.IP_OPTION_CLASSES + (H.SOMEIPSDLoadBalancingOption,))
    _decoder(vc, vc.outcome(vc.body(cls.parse_option), buf), buf, "parse_option")


def ob_config_parse_clean(vc):
    """every iteration of the configuration decoder's loop (loop contract): only ParseError
    or, from the ASCII decoding of the text, UnicodeDecodeError; termination by the variant"""
    buf = vc.bytes("buf", hint="config")
    _decoder(vc, vc.outcome(vc.body(H.SOMEIPSDConfigOption.parse_option), buf), buf, "SOMEIPSDConfigOption.parse_option", unicode_ok=True)


def ob_sd_parse_clean(vc):
    buf = vc.bytes("buf", hint="sd")
    o = vc.outcome(vc.body(H.SOMEIPSDHeader.parse), buf)
    if _decoder(vc, o, buf, "SOMEIPSDHeader.parse", unicode_ok=True):
        _suffix(vc, buf, o.value[1], "SOMEIPSDHeader.parse")


def ob_sd_datagram_never_raises(vc):
    """the whole receive path of a discovery endpoint on one arbitrary iteration of the
    datagram loop: message_received runs with its real body (SD decoder by contract)"""
    loop = vc.install_loop(SS.LL.FakeLoop(vc.real("now", 0)))
    prot, sent = SS.gen_sd_protocol(vc, "prot")
    handed = vc.stub(prot, "sd_message_received")
    addr = SS.gen_addr(vc, "addr")
    data0 = vc.bytes("data0", native_from="head.data", hint="sd-datagram")
    o = vc.outcome(vc.body(SD.SOMEIPDatagramProtocol.datagram_received), prot, data0, addr, vc.bool("multicast"))
    vc.check(o.kind != "raise", "sd.datagram_received.never_raises")
    vc.check_eq(len(sent), 0, "sd.datagram_received.transmits_nothing")


def canary_decoder_accepts_everything(vc):
    """must be refuted"""
    buf = vc.bytes("buf")
    vc.check(vc.outcome(H.SOMEIPHeader.parse, buf).kind == "ret", "canary")


HARNESSES = (
    [SH.ob_unpack_refines, SH.ob_parse_header_refines, SH.ob_parse_refines]
    + [SC.ob_entry_parse_refines, SC.ob_option_parse_refines, SC.ob_ip_parse_option_refines, SC.ob_loadbal_refines, SC.ob_config_parse_option_refines, SC.ob_sd_parse_refines]
    + [ob_someip_parse_clean, ob_entry_parse_clean, ob_option_parse_clean, ob_option_payload_parsers_clean, ob_config_parse_clean, ob_sd_parse_clean]
    + [C01.ob_datagram_iteration, ob_sd_datagram_never_raises]
    + SS.MESSAGE_RECEIVED_OBLIGATIONS
    # what message_received hands on is the decoded header with its options resolved: the
    # flags (a clear unicast flag makes the dispatcher ignore the message) are the decoder's
    + [SC.ob_entry_resolve_options_refines, SC.ob_sd_resolve_options]
    + SS.DISPATCH_OBLIGATIONS
    + [C16.ob_message_received, canary_decoder_accepts_everything]
)

EXPECT_COVERS = {
    "ob_sd_message_received": ["rejected", "accepted", "reboot"],
    "ob_sd_message_dispatch": ["multicast-only", "offer", "find", "subscribe"],
}
