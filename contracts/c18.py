"""C18 -- stream and datagram framing agree under arbitrary segmentation."""
import asyncio

import someip.header as H
from contracts import spec_header as SH

FUNCTIONS = [
    "someip.header.SOMEIPHeader.read",
    "someip.header.SOMEIPReader.read",
    "someip.header.SOMEIPHeader._parse_header",
    "someip.header.SOMEIPHeader.parse",
]

ASSUMPTIONS = [
    "asyncio.StreamReader.readexactly(n) contract (trusted, stated in StreamModel below): returns the next n bytes of the stream and advances, raises asyncio.IncompleteReadError if fewer remain, ValueError for n < 0 -- independent of how the stream was cut into chunks, which is how the quantifier over segmentations is discharged",
    "the stream is an arbitrary byte string of arbitrary length (so an arbitrary cursor position is an arbitrary suffix); by induction on the number of messages the single-message relation gives the sequence claim",
]


class StreamModel:
    """contract of asyncio.StreamReader as far as the library uses it"""

    def __init__(self, data):
        self.data = data
        self.pos = 0

    async def readexactly(self, n):
        if n < 0:
            raise ValueError("readexactly size can not be less than zero")
        if len(self.data) - self.pos < n:
            partial = self.data[self.pos :]
            self.pos = len(self.data)
            raise asyncio.IncompleteReadError(partial, n)
        b = self.data[self.pos : self.pos + n]
        self.pos = self.pos + n
        return b

    def at_eof(self):
        return self.pos >= len(self.data)


def _relate(vc, r, reader, stream, prefix):
    p = vc.outcome(H.SOMEIPHeader.parse, stream)
    if p.kind == "ret":
        vc.cover("message")
        vc.check(r.kind == "ret", prefix + ".reads_a_message_where_datagram_decoding_does")
        if r.kind == "ret":
            vc.check_eq(r.value, p.value[0], prefix + ".same_message")
            vc.check_eq(reader.pos, len(stream) - len(p.value[1]), prefix + ".consumes_exactly_the_message")
    elif vc.is_exc(p, H.IncompleteReadError):
        vc.cover("truncated")
        vc.check(vc.is_exc(r, asyncio.IncompleteReadError), prefix + ".incomplete_read_error_on_truncated_stream")
    else:
        vc.cover("bad-header")
        vc.check(vc.is_exc(r, H.ParseError) and not vc.is_exc(r, H.IncompleteReadError), prefix + ".parse_error_where_datagram_decoding_rejects")


def ob_read_agrees_with_parse(vc):
    stream = vc.bytes("stream", hint="someip*")
    reader = StreamModel(stream)
    r = vc.outcome(vc.run, vc.body(H.SOMEIPHeader.read)(reader))
    _relate(vc, r, reader, stream, "read")


def ob_reader_wrapper(vc):
    stream = vc.bytes("stream", hint="someip*")
    reader = StreamModel(stream)
    w = H.SOMEIPReader(reader)
    r = vc.outcome(vc.run, vc.body(H.SOMEIPReader.read)(w))
    _relate(vc, r, reader, stream, "SOMEIPReader.read")
    vc.check_eq(w.at_eof(), reader.pos >= len(stream), "SOMEIPReader.at_eof")


def canary_read_never_fails(vc):
    """must be refuted"""
    stream = vc.bytes("stream")
    r = vc.outcome(vc.run, H.SOMEIPHeader.read(StreamModel(stream)))
    vc.check(r.kind == "ret", "canary")


HARNESSES = [SH.ob_parse_header_refines, SH.ob_parse_refines, SH.ob_unpack_refines, ob_read_agrees_with_parse, ob_reader_wrapper, canary_read_never_fails]

EXPECT_COVERS = {"ob_read_agrees_with_parse": ["message", "truncated", "bad-header"], "ob_reader_wrapper": ["message", "truncated", "bad-header"]}
