"""Contracts for someip.sd (session storage first; the stateful classes follow)."""
import someip.sd as SD
from contracts.common import gen_addr

ID_MAX = 0xFFFF

K_INCOMING = "any"  # (sockaddr, multicast)
V_SESSION = ("tuple", "bool", "int")
K_OUTGOING = "any"  # sockaddr or None


# ---------------------------------------------------------------------------- _SessionStorage


def reboot_rule(old_flag, old_sid, flag, sid):
    """C07: the reboot flag went from clear to set, or stayed set while the session id did
    not increase"""
    return flag and ((not old_flag) or sid <= old_sid)


def check_received(self, sender, multicast, flag, session_id):
    k = (sender, multicast)
    prev = self.incoming.get(k)
    self.incoming[k] = (flag, session_id)
    if prev is None:
        return False
    if reboot_rule(prev[0], prev[1], flag, session_id):
        return True
    return False


def next_session(cur):
    """C08: ids count 1..0xFFFF, then wrap to 1 with the reboot flag cleared for good"""
    flag, sid = cur
    if sid == ID_MAX:
        return (False, 1)
    return (flag, sid + 1)


def assign_outgoing(self, remote):
    cur = self.outgoing.get(remote, (True, 1))
    self.outgoing[remote] = next_session(cur)
    return cur


def format_address(addr):
    """ASSUMED (not proved): formatting an OS-supplied peer address for a log line returns
    text and does not raise (socket.getnameinfo / ipaddress on a valid sockaddr)"""
    return "<address>"


ASSUMED_CONTRACTS = {
    "someip.sd.format_address": format_address,
}

CONTRACTS = {
    "someip.sd._SessionStorage.check_received": check_received,
    "someip.sd._SessionStorage.assign_outgoing": assign_outgoing,
}


def session_inv(v):
    return 1 <= v[1] and v[1] <= ID_MAX


def default_session():
    return (True, 1)


def gen_storage(vc, name, with_inv=True):
    """two session storages with equal, arbitrary contents (one for the body, one for the spec)"""
    a = SD._SessionStorage()
    b = SD._SessionStorage()
    inc = vc.map(name + ".incoming", key=K_INCOMING, val=V_SESSION)
    if with_inv:
        out = vc.map(name + ".outgoing", key=K_OUTGOING, val=V_SESSION, default=default_session, inv=session_inv)
    else:
        out = vc.map(name + ".outgoing", key=K_OUTGOING, val=V_SESSION, default=default_session)
    a.incoming = inc
    b.incoming = vc.copy(inc)
    a.outgoing = out
    b.outgoing = vc.copy(out)
    return a, b


def ob_check_received_refines(vc):
    a, b = gen_storage(vc, "st")
    sender = gen_addr(vc, "sender")
    multicast = vc.bool("multicast")
    flag = vc.bool("flag")
    sid = vc.int("session_id", 0, 0xFFFF)
    prev = b.incoming.get((sender, multicast))
    # known finding D11 is confined to the region 'previous id was 0 and both flags set':
    # it gets its own obligation name so that any other deviation is still reported
    region = ""
    if prev is not None and prev[1] == 0 and prev[0] and flag:
        region = "@prev_session_id_0"
    o1 = vc.outcome(vc.body(SD._SessionStorage.check_received), a, sender, multicast, flag, sid)
    o2 = vc.outcome(check_received, b, sender, multicast, flag, sid)
    vc.same_outcome(o1, o2, "check_received.refines" + region)
    vc.check_eq(a.incoming, b.incoming, "check_received.incoming_post" + region)
    vc.check_eq(a.outgoing, b.outgoing, "check_received.frame_outgoing")


def ob_assign_outgoing_refines(vc):
    a, b = gen_storage(vc, "st")
    remote = vc.choice("remote_is_none", (True, False))
    if remote:
        r = None
    else:
        r = gen_addr(vc, "remote")
    o1 = vc.outcome(vc.body(SD._SessionStorage.assign_outgoing), a, r)
    vc.lock_discipline("st.outgoing", "assign_outgoing.outgoing_only_under_lock")
    o2 = vc.outcome(assign_outgoing, b, r)
    vc.same_outcome(o1, o2, "assign_outgoing.refines")
    vc.check_eq(a.outgoing, b.outgoing, "assign_outgoing.outgoing_post")
    vc.check_eq(a.incoming, b.incoming, "assign_outgoing.frame_incoming")
    if o1.kind == "ret":
        vc.check(o1.value[1] >= 1 and o1.value[1] <= ID_MAX, "assign_outgoing.id_in_range")
