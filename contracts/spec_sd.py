"""Contracts for someip.sd (session storage first; the stateful classes follow)."""
import someip.sd as SD
from contracts import spec_header as SH  # noqa: F401  (contracts of the SOME/IP codec)
from contracts import spec_sdcodec as SC  # noqa: F401  (contracts of the SD codec)
from contracts.common import check_frame, gen_addr

ID_MAX = 0xFFFF

K_INCOMING = "any"  # (sockaddr, multicast)
V_SESSION = ("tuple", "bool", "int")
K_OUTGOING = "any"  # sockaddr or None


# ---------------------------------------------------------------------------- _SessionStorage


def reboot_rule(old_flag, old_sid, flag, sid):
    """C07: the reboot flag went from clear to set, or stayed set while the session id did
    not increase"""
    return flag and ((not old_flag) or sid <= old_sid)


def check_received(self, sender, multicast, flag, session_id):
    k = (sender, multicast)
    prev = self.incoming.get(k)
    self.incoming[k] = (flag, session_id)
    if prev is None:
        return False
    if reboot_rule(prev[0], prev[1], flag, session_id):
        return True
    return False


def next_session(cur):
    """C08: ids count 1..0xFFFF, then wrap to 1 with the reboot flag cleared for good"""
    flag, sid = cur
    if sid == ID_MAX:
        return (False, 1)
    return (flag, sid + 1)


def assign_outgoing(self, remote):
    cur = self.outgoing.get(remote, (True, 1))
    self.outgoing[remote] = next_session(cur)
    return cur


def format_address(addr):
    """ASSUMED (not proved): formatting an OS-supplied peer address for a log line returns
    text and does not raise (socket.getnameinfo / ipaddress on a valid sockaddr)"""
    return "<address>"


ASSUMED_CONTRACTS = {
    "someip.sd.format_address": format_address,
}

CONTRACTS = {
    "someip.sd._SessionStorage.check_received": check_received,
    "someip.sd._SessionStorage.assign_outgoing": assign_outgoing,
}


def session_inv(v):
    return 1 <= v[1] and v[1] <= ID_MAX


def default_session():
    return (True, 1)


def gen_storage(vc, name, with_inv=True):
    """two session storages with equal, arbitrary contents (one for the body, one for the spec)"""
    a = SD._SessionStorage()
    b = SD._SessionStorage()
    inc = vc.map(name + ".incoming", key=K_INCOMING, val=V_SESSION)
    # the storage under test keeps the default factory its own constructor installed; the
    # reference one has the specified default
    if with_inv:
        out = vc.map(name + ".outgoing", key=K_OUTGOING, val=V_SESSION, like=a.outgoing, inv=session_inv)
    else:
        out = vc.map(name + ".outgoing", key=K_OUTGOING, val=V_SESSION, like=a.outgoing)
    a.incoming = inc
    b.incoming = vc.copy(inc)
    a.outgoing = out
    b.outgoing = vc.copy(out, default=default_session)
    return a, b


def other_state(vc, st):
    """everything a session storage holds besides its two tables (its lock, ...): the tables
    are the whole abstract state, so no operation may change anything else"""
    return [(k, v) for k, v in vc.fields(st).items() if k not in ("incoming", "outgoing") and vc.attr_is_read(k)]


def ob_check_received_refines(vc):
    a, b = gen_storage(vc, "st")
    sender = gen_addr(vc, "sender")
    multicast = vc.bool("multicast")
    flag = vc.bool("flag")
    sid = vc.int("session_id", 0, 0xFFFF)
    prev = b.incoming.get((sender, multicast))
    # known finding D11 is confined to the region 'previous id was 0 and both flags set':
    # it gets its own obligation name so that any other deviation is still reported
    region = ""
    if prev is not None and prev[1] == 0 and prev[0] and flag:
        region = "@prev_session_id_0"
    before = other_state(vc, a)
    o1 = vc.outcome(vc.body(SD._SessionStorage.check_received), a, sender, multicast, flag, sid)
    o2 = vc.outcome(check_received, b, sender, multicast, flag, sid)
    vc.check_eq(other_state(vc, a), before, "check_received.frame_no_state_besides_the_two_tables")
    vc.same_outcome(o1, o2, "check_received.refines" + region)
    vc.check_eq(a.incoming, b.incoming, "check_received.incoming_post" + region)
    vc.check_eq(a.outgoing, b.outgoing, "check_received.frame_outgoing")


def ob_assign_outgoing_refines(vc):
    a, b = gen_storage(vc, "st")
    remote = vc.choice("remote_is_none", (True, False))
    if remote:
        r = None
    else:
        r = gen_addr(vc, "remote")
    before = other_state(vc, a)
    o1 = vc.outcome(vc.body(SD._SessionStorage.assign_outgoing), a, r)
    vc.lock_discipline("st.outgoing", "assign_outgoing.outgoing_only_under_lock")
    o2 = vc.outcome(assign_outgoing, b, r)
    vc.same_outcome(o1, o2, "assign_outgoing.refines")
    vc.check_eq(other_state(vc, a), before, "assign_outgoing.frame_no_state_besides_the_two_tables")
    vc.check_eq(a.outgoing, b.outgoing, "assign_outgoing.outgoing_post")
    vc.check_eq(a.incoming, b.incoming, "assign_outgoing.frame_incoming")
    if o1.kind == "ret":
        vc.check(o1.value[1] >= 1 and o1.value[1] <= ID_MAX, "assign_outgoing.id_in_range")


def ob_assign_outgoing_twice(vc):
    """two consecutive calls (same or different destinations) against the contract applied
    twice: whatever the first call leaves behind -- in the tables or anywhere else -- the
    second one still behaves as specified (a history of length two from an arbitrary state)"""
    a, b = gen_storage(vc, "st")
    r1 = None if vc.bool("first_is_none") else gen_addr(vc, "r1")
    r2 = None if vc.bool("second_is_none") else gen_addr(vc, "r2")
    vc.outcome(vc.body(SD._SessionStorage.assign_outgoing), a, r1)
    vc.outcome(assign_outgoing, b, r1)
    o1 = vc.outcome(vc.body(SD._SessionStorage.assign_outgoing), a, r2)
    o2 = vc.outcome(assign_outgoing, b, r2)
    vc.same_outcome(o1, o2, "assign_outgoing.second_call_refines")
    vc.check_eq(a.outgoing, b.outgoing, "assign_outgoing.outgoing_after_two_calls")


# ---------------------------------------------------------------------------- ServiceDiscoveryProtocol.send_sd
import someip.header as H  # noqa: E402

SD_SERVICE_ID = 0xFFFF  # PRS_SOMEIPSD_00003
SD_METHOD_ID = 0x8100
SD_INTERFACE = 0x01


def send_sd(self, entries, remote=None):
    """an SD message is a SOME/IP notification (service 0xFFFF, method 0x8100, client 0,
    interface 1, return code OK) whose payload is the SD message of the entries with the
    shared option array; it carries the (reboot flag, session id) pair drawn for its
    destination.  Nothing is drawn or sent for an empty entry list."""
    if not entries:
        return None
    flag_reboot, session_id = self.session_storage.assign_outgoing(remote)
    msg = H.SOMEIPSDHeader(flag_reboot=flag_reboot, flag_unicast=True, entries=tuple(entries)).assign_option_indexes()
    hdr = H.SOMEIPHeader(
        service_id=SD_SERVICE_ID,
        method_id=SD_METHOD_ID,
        client_id=0,
        session_id=session_id,
        interface_version=SD_INTERFACE,
        message_type=H.SOMEIPMessageType.NOTIFICATION,
        return_code=H.SOMEIPReturnCode.E_OK,
        protocol_version=1,
        payload=msg.build(),
    )
    self.send(hdr.build(), remote)
    return None


CONTRACTS["someip.sd.ServiceDiscoveryProtocol.send_sd"] = send_sd


def gen_sd_protocol(vc, name, copy_of=None):
    """a discovery endpoint (real constructor) with a recording transport; its session
    storage has arbitrary contents"""
    prot = SD.ServiceDiscoveryProtocol((vc.opaque(name + ".mc_host", "host"), 30490))
    transport = vc.opaque(name + ".transport", "transport")
    sent = vc.stub(transport, "sendto")
    prot.transport = transport
    return prot, sent


def _gen_resolved_entry_for_send(vc, name):
    from contracts.spec_config import gen_entry

    return gen_entry(vc, name, resolved=True)


def ob_send_sd_refines(vc):
    """send_sd for ARBITRARILY MANY entries per call (assign_option_indexes and the SD
    encoder by contract); destinations, session table, entry fields and option runs symbolic"""

    a, sent_a = gen_sd_protocol(vc, "prot")
    b, sent_b = gen_sd_protocol(vc, "prot_spec")
    b.default_addr = a.default_addr
    sa, sb = gen_storage(vc, "st")
    a.session_storage = sa
    b.session_storage = sb
    entries = vc.seq("entries", _gen_resolved_entry_for_send)
    n = len(entries)
    if vc.choice("remote_is_none", (True, False)):
        remote = None
    else:
        remote = gen_addr(vc, "remote")
    drawn = vc.spy(sa, "assign_outgoing")
    heap = vc.snapshot(prot=a)
    o1 = vc.outcome(vc.body(SD.ServiceDiscoveryProtocol.send_sd), a, list(entries), remote)
    check_frame(vc, heap, "send_sd", ("prot.session_storage.outgoing",))
    o2 = vc.outcome(send_sd, b, list(entries), remote)
    vc.same_outcome(o1, o2, "send_sd.refines")
    vc.check_eq(len(sent_a), len(sent_b), "send_sd.refines.number_of_datagrams")
    if len(sent_a) == 1 and len(sent_b) == 1:
        vc.cover("sent")
        vc.check_eq(sent_a[0][0], sent_b[0][0], "send_sd.refines.datagram")
        vc.check_eq(sent_a[0][1], sent_b[0][1], "send_sd.refines.destination")
    vc.check_eq(sa.outgoing, sb.outgoing, "send_sd.refines.session_table")
    if n == 0:
        vc.cover("empty")
        vc.check_eq(len(sent_a), 0, "send_sd.empty_sends_nothing")
        vc.check_eq(len(drawn), 0, "send_sd.empty_consumes_no_session_id")
    elif o1.kind == "ret":
        vc.check_eq(len(drawn), 1, "send_sd.draws_exactly_one_session_id")
        vc.check_eq(drawn[0], (remote,), "send_sd.draws_it_for_the_destination")
        vc.check_eq(len(sent_a), 1, "send_sd.sends_exactly_one_datagram")


SEND_SD_OBLIGATIONS = [ob_send_sd_refines]


# ---------------------------------------------------------------------------- ServiceDiscoveryProtocol.message_received
from contracts import looplib as LL  # noqa: E402


def is_sd_notification(m):
    """PRS_SOMEIPSD_00003 ff.: service 0xFFFF, method 0x8100, interface 1, notification, E_OK"""
    return (
        m.service_id == SD_SERVICE_ID
        and m.method_id == SD_METHOD_ID
        and m.interface_version == SD_INTERFACE
        and m.message_type == H.SOMEIPMessageType.NOTIFICATION
        and m.return_code == H.SOMEIPReturnCode.E_OK
    )


def ob_sd_message_received(vc):
    """ServiceDiscoveryProtocol.message_received for an arbitrary SOME/IP message, sender,
    channel and session table (SOMEIPSDHeader.parse by contract: any header, or an error):
      * never raises;
      * not an SD notification, or an undecodable payload: no effect at all (frame: session
        table, event loop, transport, sd_message_received untouched);
      * otherwise check_received is called exactly once with (addr, channel, reboot flag of
        the SD header, session id of the SOME/IP header); iff it reports a reboot, each of
        subscriber / discovery / announcer gets reboot_detected(addr) queued exactly once,
        before the entries of the message are handed on; the resolved message is handed to
        sd_message_received exactly once with addr and the channel."""
    from contracts import spec_header as SH

    loop = vc.install_loop(LL.FakeLoop(vc.real("now", 0)))
    prot, sent = gen_sd_protocol(vc, "prot")
    sa, sb = gen_storage(vc, "st")
    prot.session_storage = sa
    checks = vc.spy(sa, "check_received")
    order = []

    def on_sd(h, a, m):
        order.append("entries")

    def on_reboot_sub(a):
        order.append(("reboot", "subscriber", a))

    def on_reboot_dis(a):
        order.append(("reboot", "discovery", a))

    def on_reboot_ann(a):
        order.append(("reboot", "announcer", a))

    handed = vc.stub(prot, "sd_message_received", on_sd)
    vc.stub(prot.subscriber, "reboot_detected", on_reboot_sub)
    vc.stub(prot.discovery, "reboot_detected", on_reboot_dis)
    vc.stub(prot.announcer, "reboot_detected", on_reboot_ann)
    msg = SH.gen_message(vc, "msg")
    addr = gen_addr(vc, "addr")
    multicast = vc.bool("multicast")
    heap = vc.snapshot(prot=prot)
    o = vc.outcome(vc.body(SD.ServiceDiscoveryProtocol.message_received), prot, msg, addr, multicast)
    check_frame(vc, heap, "sd.message_received", ("prot.session_storage.incoming",))
    parsed = vc.outcome(H.SOMEIPSDHeader.parse, msg.payload) if is_sd_notification(msg) else None
    region = ""
    if parsed is not None and vc.is_exc(parsed, UnicodeDecodeError):
        region = "@unicode_error_from_sd_decoder"
    vc.check(o.kind == "ret", "sd.message_received.never_raises" + region)
    if parsed is None or parsed.kind == "raise":
        vc.cover("rejected")
        vc.check_eq(len(checks), 0, "sd.message_received.rejected.no_session_check" + region)
        vc.check_eq(sa.incoming, sb.incoming, "sd.message_received.rejected.session_state_untouched" + region)
        vc.check_eq(sa.outgoing, sb.outgoing, "sd.message_received.rejected.outgoing_untouched" + region)
        vc.check_eq(len(loop.ready) + len(loop.timers) + len(loop.tasks), 0, "sd.message_received.rejected.nothing_scheduled" + region)
        vc.check_eq(len(sent), 0, "sd.message_received.rejected.nothing_sent" + region)
        vc.check_eq(len(order), 0, "sd.message_received.rejected.no_reboot_no_entries" + region)
        return
    vc.cover("accepted")
    sdhdr, rest = parsed.value
    vc.check_eq(len(checks), 1, "sd.message_received.one_session_check")
    if len(checks) == 1:
        vc.check_eq(checks[0], (addr, multicast, sdhdr.flag_reboot, msg.session_id), "sd.message_received.session_check_arguments")
    rebooted = check_received(sb, addr, multicast, sdhdr.flag_reboot, msg.session_id)
    vc.check_eq(sa.incoming, sb.incoming, "sd.message_received.session_state_updated_once")
    vc.check_eq(len(handed), 1, "sd.message_received.entries_handed_on_once")
    if len(handed) == 1:
        vc.check_eq(handed[0][1:], (addr, multicast), "sd.message_received.handed_on_with_addr_and_channel")
        vc.check_eq(handed[0][0], sdhdr.resolve_options(), "sd.message_received.handed_on_resolved")
    # the reboot, if any, has been APPLIED to every part before the entries are handed on
    # (a reboot that is merely queued would be overtaken by Subscribe / FindService entries,
    # which are dispatched immediately)
    before = []
    for x in order:
        if x == "entries":
            break
        before.append(x)
    n_sub = len([1 for x in before if x == ("reboot", "subscriber", addr)])
    n_dis = len([1 for x in before if x == ("reboot", "discovery", addr)])
    n_ann = len([1 for x in before if x == ("reboot", "announcer", addr)])
    if rebooted:
        vc.cover("reboot")
        vc.check(n_sub == 1 and n_dis == 1 and n_ann == 1, "sd.message_received.reboot_applied_to_each_part_exactly_once_before_the_entries")
        vc.check_eq(len(order), 4, "sd.message_received.reboot_reaches_each_part_exactly_once")
    else:
        vc.check_eq(order, ["entries"], "sd.message_received.no_reboot_no_fanout")
    vc.check_eq(len(loop.ready) + len(loop.timers), 0, "sd.message_received.defers_nothing_itself")
    vc.check_eq(len(sent), 0, "sd.message_received.sends_nothing_itself")


MESSAGE_RECEIVED_OBLIGATIONS = [ob_sd_message_received]


# ---------------------------------------------------------------------------- sd_message_received (entry dispatch)


def _sdm_head(vc, v, entering):
    vc.stash("sdm.entering", entering)
    if entering:
        vc.stash("sdm.entry", v["$target"])


LOOPS = {
    ("someip.sd.ServiceDiscoveryProtocol.sd_message_received", 0): {"head": _sdm_head},
}


def _gen_resolved_entry(vc, name):
    from contracts.spec_config import gen_entry

    return gen_entry(vc, name, resolved=True)


def ob_sd_message_dispatch(vc):
    """sd_message_received: a message whose unicast flag is clear has no effect at all;
    otherwise each entry (arbitrary position in a message of arbitrary length) is dispatched
    exactly once by its type: an Offer is queued for the discovery part, a FindService goes
    to the announcer together with the channel it arrived on, a Subscribe goes to the
    announcer only if it arrived by unicast, a SubscribeAck changes nothing."""
    loop = vc.install_loop(LL.FakeLoop(vc.real("now", 0)))
    prot, sent = gen_sd_protocol(vc, "prot")
    finds = vc.stub(prot.announcer, "handle_findservice")
    subs = vc.stub(prot.announcer, "handle_subscribe")
    sdhdr = H.SOMEIPSDHeader(
        entries=vc.seq("entries", _gen_resolved_entry),
        options=vc.opaque_seq("options", "option"),
        flag_reboot=vc.bool("flag_reboot"),
        flag_unicast=vc.bool("flag_unicast"),
        flags_unknown=vc.int("flags_unknown", 0, 63),
    )
    addr = gen_addr(vc, "addr")
    multicast = vc.bool("multicast")
    vc.arm_cut(SD.ServiceDiscoveryProtocol.sd_message_received, 0)
    heap = vc.snapshot(prot=prot)
    o = vc.outcome(vc.body(SD.ServiceDiscoveryProtocol.sd_message_received), prot, sdhdr, addr, multicast)
    check_frame(vc, heap, "sd_message_received", ())
    vc.check(o.kind != "raise", "sd_message_received.never_raises")
    pend = loop.pending()
    if vc.native:
        # a replay sees the effects of the first entry only (or of none)
        if not sdhdr.flag_unicast or len(sdhdr.entries) == 0:
            vc.check_eq(len(pend) + len(finds) + len(subs) + len(sent), 0, "sd_message_received.no_effect")
            return
        entry = sdhdr.entries[0]
    else:
        if not sdhdr.flag_unicast:
            vc.cover("multicast-only")
            vc.check(vc.stashed("sdm.entering") is None, "sd_message_received.unicast_flag_clear.entries_ignored")
            vc.check_eq(len(pend) + len(finds) + len(subs) + len(sent), 0, "sd_message_received.unicast_flag_clear.no_effect")
            return
        if not vc.stashed("sdm.entering"):
            vc.check_eq(len(pend) + len(finds) + len(subs) + len(sent), 0, "sd_message_received.after_last_entry.no_effect")
            return
        entry = vc.stashed("sdm.entry")
    t = entry.sd_type
    exp_pend = []
    exp_finds = []
    exp_subs = []
    if t == H.SOMEIPSDEntryType.OfferService:
        vc.cover("offer")
        exp_pend = [(prot.discovery.handle_offer, (entry, addr))]
    elif t == H.SOMEIPSDEntryType.FindService:
        vc.cover("find")
        exp_finds = [(entry, addr, multicast)]
    elif t == H.SOMEIPSDEntryType.Subscribe and not multicast:
        vc.cover("subscribe")
        exp_subs = [(entry, addr)]
    vc.check_eq(pend, exp_pend, "sd_message_received.entry.queued_for_discovery")
    vc.check_eq(finds, exp_finds, "sd_message_received.entry.find_to_announcer_with_channel")
    vc.check_eq(subs, exp_subs, "sd_message_received.entry.subscribe_to_announcer_only_by_unicast")
    vc.check_eq(len(sent), 0, "sd_message_received.entry.sends_nothing_itself")


DISPATCH_OBLIGATIONS = [ob_sd_message_dispatch]
