"""C16 -- method calls get exactly one correctly correlated reply."""
import someip.header as H
import someip.service as S
from contracts.common import check_frame
from contracts import spec_header as SH
from contracts import spec_service as SV

FUNCTIONS = [
    "someip.service.SimpleService.message_received",
    "someip.service.SimpleService.send_error_response",
    "someip.service.SimpleService.send_positive_response",
    "someip.service.SimpleService.register_method",
    "someip.header.SOMEIPHeader.build",
    "someip.sd.SOMEIPDatagramProtocol.send (inlined)",
]

ASSUMPTIONS = [
    "the method handler is opaque: it returns bytes, returns None or raises MalformedMessageError (all three explored), and is side-effect free on the endpoint",
    "transport.sendto is a recorder; warnings.warn does not raise (not escalated to an error)",
    "requests are arbitrary SOMEIPHeader values with wire-width fields (every message type and return code, payload of any length)",
]

E = H.SOMEIPReturnCode
MT = H.SOMEIPMessageType


def expected_replies(svc, registered, msg, addr, multicast, behaviour, response):
    """decision table of the statement; returns the list of (datagram, destination)"""
    if multicast:
        return []
    code = None
    if msg.service_id != svc.service_id:
        code = E.E_UNKNOWN_SERVICE
    elif msg.interface_version != svc.version_major:
        code = E.E_WRONG_INTERFACE_VERSION
    elif not registered:
        code = E.E_UNKNOWN_METHOD
    elif msg.message_type != MT.REQUEST and msg.message_type != MT.REQUEST_NO_RETURN:
        code = E.E_WRONG_MESSAGE_TYPE
    elif msg.return_code != E.E_OK:
        code = E.E_WRONG_MESSAGE_TYPE
    elif behaviour == "malformed":
        code = E.E_MALFORMED_MESSAGE
    if code is not None:
        return [(SH.enc_someip(SV.reply_header(msg, MT.ERROR, code, b"")), addr)]
    if behaviour == "bytes" and msg.message_type == MT.REQUEST:
        return [(SH.enc_someip(SV.reply_header(msg, MT.RESPONSE, E.E_OK, response)), addr)]
    return []


def ob_message_received(vc):
    svc, sent = SV.gen_service_endpoint(vc, "svc")
    behaviour = vc.choice("handler.behaviour", ("bytes", "none", "malformed"))
    response = vc.bytes("handler.response")
    vc.assume(len(response) + 8 <= 0xFFFFFFFF)
    handled = []

    def handler(m, a):
        handled.append((m, a))
        if behaviour == "bytes":
            return response
        if behaviour == "none":
            return None
        raise S.MalformedMessageError()

    mid = vc.int("registered.method_id", 0, 0xFFFF)
    svc.register_method(mid, handler)
    msg = SH.gen_message(vc, "msg")
    addr = vc.opaque("addr", "addr")
    multicast = vc.bool("multicast")
    heap = vc.snapshot(svc=svc)
    o = vc.outcome(vc.body(S.SimpleService.message_received), svc, msg, addr, multicast)
    vc.check(o.kind == "ret", "message_received.never_raises")
    check_frame(vc, heap, "message_received", ())
    registered = msg.method_id == mid
    exp = expected_replies(svc, registered, msg, addr, multicast, behaviour, response)
    vc.check_eq(len(sent), len(exp), "message_received.number_of_replies")
    if len(sent) == len(exp) and len(exp) == 1:
        vc.cover("replied")
        vc.check_eq(sent[0][1], exp[0][1], "message_received.reply_goes_to_sender")
        vc.check_eq(sent[0][0], exp[0][0], "message_received.reply_bytes")
    if len(exp) == 0:
        vc.cover("silent")


def ob_register_method(vc):
    """register_method stores the handler under its id and refuses duplicates"""
    svc, sent = SV.gen_service_endpoint(vc, "svc")
    a = vc.int("id_a", 0, 0xFFFF)
    b = vc.int("id_b", 0, 0xFFFF)

    def h1(m, x):
        return None

    def h2(m, x):
        return None

    svc.register_method(a, h1)
    o = vc.outcome(svc.register_method, b, h2)
    if a == b:
        vc.check(vc.is_exc(o, KeyError), "register_method.duplicate_refused")
        vc.check(svc.methods.get(a) is h1, "register_method.duplicate_keeps_first")
    else:
        vc.check(o.kind == "ret", "register_method.accepts_new_id")
        vc.check(svc.methods.get(a) is h1 and svc.methods.get(b) is h2, "register_method.both_registered")


def canary_always_replies(vc):
    """must be refuted: claims every unicast message is answered"""
    svc, sent = SV.gen_service_endpoint(vc, "svc")

    def handler(m, a):
        return None

    svc.register_method(vc.int("registered.method_id", 0, 0xFFFF), handler)
    msg = SH.gen_message(vc, "msg")
    svc.message_received(msg, vc.opaque("addr", "addr"), False)
    vc.check_eq(len(sent), 1, "canary")


HARNESSES = SV.REFINES + [SH.ob_build_refines, ob_message_received, ob_register_method, canary_always_replies]

EXPECT_COVERS = {"ob_message_received": ["replied", "silent"]}
