"""C14 -- client subscription messages mirror the requested subscription set."""
import asyncio

import someip.config as C
import someip.header as H
import someip.sd as SD
from contracts import looplib as LL
from contracts.common import check_frame
from contracts import spec_sd as SS

FUNCTIONS = [
    "someip.sd.ServiceSubscriber.subscribe_eventgroup",
    "someip.sd.ServiceSubscriber.stop_subscribe_eventgroup",
    "someip.sd.ServiceSubscriber._send_subscribe",
    "someip.sd.ServiceSubscriber._send_start_subscribe",
    "someip.sd.ServiceSubscriber._send_stop_subscribe",
    "someip.sd.ServiceSubscriber.start",
    "someip.sd.ServiceSubscriber.stop",
    "someip.sd.ServiceSubscriber._group_entries",
    "someip.sd.ServiceSubscriber._subscribe",
    "someip.sd.ServiceSubscriber.connection_lost",
    "someip.config.Eventgroup.create_subscribe_entry",
    "someip.config.Eventgroup._sockaddr_to_endpoint",
]
ASSUMPTIONS = [
    "a server applies the Subscribe / StopSubscribe entries it is sent in the order sent (the model server below); send_sd is observed as a call (entries, destination)",
    "history claim as one step from an arbitrary consistent state (the servers hold exactly what is requested from them while the subscriber runs and its queued work is drained) under every operation; induction over the history is the trusted rule",
    "the refresh task is a coroutine verified as a sequential procedure; one arbitrary refresh iteration by loop contract; Task.cancel() delivers CancelledError at the sleep",
    "socket.getnameinfo with NI_NUMERICHOST|NI_NUMERICSERV returns the numeric host and decimal port (evaluated for the concrete local endpoints below)",
]
BOUNDED = [
    "the END-TO-END statement ('servers end up holding exactly the requested eventgroups', model servers applying the entries in order) is checked for a requested set of up to two eventgroups over two servers; the loops and the comprehension of the subscriber are verified element-wise for arbitrarily many eventgroups and servers (ob_group_entries, ob_refresh_round_elementwise, ob_stop_elementwise, ob_send_subscribe_elementwise) and their composition into the end-to-end statement is the trusted induction over the elements",
    "local endpoints drawn from four concrete representatives (IPv4/IPv6 x UDP/TCP); ids, TTL and refresh interval symbolic",
]
EXPLANATION = "every operation is proved to keep 'servers hold exactly the requested eventgroups' for all ids, TTLs and intervals and every interleaving with the event loop's queue; the loops over the requested set are verified for one arbitrary element among arbitrarily many; the end-to-end server model runs on a requested set of bounded shape and the local endpoints are representative (bounded_stand_ins)"

SOCKNAMES = (
    (("192.0.2.7", 30501), H.L4Protocols.UDP),
    (("192.0.2.7", 30502), H.L4Protocols.TCP),
    (("2001:db8::7", 30503, 0, 0), H.L4Protocols.UDP),
    (("2001:db8::7", 30504, 0, 0), H.L4Protocols.TCP),
)


def gen_eventgroup(vc, name):
    sockname, proto = vc.choice(name + ".local", SOCKNAMES)
    return C.Eventgroup(
        service_id=vc.int(name + ".service_id", 0, 0xFFFF),
        instance_id=vc.int(name + ".instance_id", 0, 0xFFFF),
        major_version=vc.int(name + ".major_version", 0, 0xFF),
        eventgroup_id=vc.int(name + ".eventgroup_id", 0, 0xFFFF),
        sockname=sockname,
        protocol=proto,
    )


def ob_create_subscribe_entry(vc):
    """each Subscribe names the eventgroup's ids, the given TTL and counter, and exactly
    one endpoint option with the local address, port and transport protocol"""
    eg = gen_eventgroup(vc, "eg")
    ttl = vc.int("ttl", 0, 0xFFFFFF)
    counter = vc.int("counter", 0, 15)
    e = vc.body(C.Eventgroup.create_subscribe_entry)(eg, ttl, counter)
    vc.check_eq(e.sd_type, H.SOMEIPSDEntryType.Subscribe, "create_subscribe_entry.type")
    vc.check_eq((e.service_id, e.instance_id, e.major_version, e.ttl), (eg.service_id, eg.instance_id, eg.major_version, ttl), "create_subscribe_entry.ids_and_ttl")
    vc.check_eq(e.minver_or_counter, counter * 65536 + eg.eventgroup_id, "create_subscribe_entry.counter_and_eventgroup")
    vc.check_eq(len(e.options_1), 1, "create_subscribe_entry.one_endpoint_option")
    vc.check_eq(len(e.options_2), 0, "create_subscribe_entry.no_second_run")
    o = e.options_1[0]
    v6 = len(eg.sockname) == 4
    vc.check(isinstance(o, H.IPv6EndpointOption if v6 else H.IPv4EndpointOption), "create_subscribe_entry.endpoint_family")
    import ipaddress

    vc.check_eq(o.address, ipaddress.ip_address(eg.sockname[0]), "create_subscribe_entry.endpoint_address")
    vc.check_eq(o.port, eg.sockname[1], "create_subscribe_entry.endpoint_port")
    vc.check_eq(o.l4proto, eg.protocol, "create_subscribe_entry.endpoint_protocol")


class Servers:
    """model servers: apply Subscribe / StopSubscribe entries in the order sent"""

    def __init__(self):
        self.held = {}  # destination -> list of (service, instance, major, eventgroup) held
        self.log = []

    def on_send(self, entries, remote=None):
        self.log.append((list(entries), remote))
        cur = self.held.setdefault(remote, [])
        for e in entries:
            key = (e.service_id, e.instance_id, e.major_version, e.minver_or_counter % 65536)
            if e.ttl == 0:
                if key in cur:
                    cur.remove(key)
            elif key not in cur:
                cur.append(key)


def eg_key(eg):
    return (eg.service_id, eg.instance_id, eg.major_version, eg.eventgroup_id)


class SWorld:
    def __init__(self, vc, name="s", light=False):
        self.vc = vc
        self.loop = vc.install_loop(LL.FakeLoop(vc.real(name + ".now", 0)))
        self.prot, self.sent = SS.gen_sd_protocol(vc, name + ".prot")
        self.sub = self.prot.subscriber
        t = self.prot.timings
        t.SUBSCRIBE_TTL = vc.int(name + ".subscribe_ttl", 1, 0xFFFFFF)
        self.refreshing = vc.bool(name + ".refresh")
        t.SUBSCRIBE_REFRESH_INTERVAL = vc.real(name + ".refresh_interval", 0) if self.refreshing else None
        if self.refreshing:
            vc.assume(t.SUBSCRIBE_REFRESH_INTERVAL > 0)
        self.t = t
        self.servers = Servers()
        vc.stub(self.prot, "send_sd", self.servers.on_send)
        self.srvA = vc.opaque(name + ".srvA", "addr")
        self.srvB = vc.opaque(name + ".srvB", "addr")
        vc.assume(self.srvA != self.srvB)
        self.eg1 = gen_eventgroup(vc, name + ".eg1")
        self.eg2 = gen_eventgroup(vc, name + ".eg2")
        vc.assume(self.eg1.eventgroup_id != self.eg2.eventgroup_id)
        # arbitrary requested set (no duplicates): eg1@A optional, eg2@A or eg2@B optional
        self.requested = []
        if light:
            # the element-wise obligations bring their own (unbounded) requested set
            self.alive = vc.bool(name + ".alive")
            self.sub.alive = self.alive
            if self.alive:
                self.sub.task = LL.Task(self.loop, None)
            self.heap = vc.snapshot(prot=self.prot)
            return
        if vc.bool(name + ".eg1_requested"):
            self.requested.append((self.eg1, self.srvA))
        where2 = vc.choice(name + ".eg2_requested", ("no", "A", "B", "eg1-again-from-B"))
        if where2 == "A":
            self.requested.append((self.eg2, self.srvA))
        elif where2 == "B":
            self.requested.append((self.eg2, self.srvB))
        elif where2 == "eg1-again-from-B":
            # the same eventgroup requested from a second server
            self.requested.append((self.eg1, self.srvB))
        for r in self.requested:
            self.sub.subscribeentries.append(r)
        self.alive = vc.bool(name + ".alive")
        self.sub.alive = self.alive
        if self.alive:
            self.sub.task = LL.Task(self.loop, None)
            # consistent state: the servers hold exactly what is requested from them
            for eg, srv in self.requested:
                self.servers.held.setdefault(srv, []).append(eg_key(eg))
        self.heap = vc.snapshot(prot=self.prot)

    def check_frame(self, label, allowed=()):
        check_frame(self.vc, self.heap, label, tuple(allowed))

    def expect_held(self, label, requested, alive):
        vc = self.vc
        self.loop.run_ready()
        for srv in (self.srvA, self.srvB):
            want = [eg_key(eg) for eg, s in requested if s == srv] if alive else []
            have = self.servers.held.get(srv, [])
            vc.check_eq(len(have), len(want), label + ".server_holds_exactly_the_requested_number")
            for k in want:
                vc.check(k in have, label + ".server_holds_each_requested_eventgroup")
        for entries, remote in self.servers.log:
            vc.check(remote == self.srvA or remote == self.srvB, label + ".subscription_messages_only_to_their_server")
            for e in entries:
                if e.ttl != 0:
                    vc.check_eq(e.ttl, self.t.SUBSCRIBE_TTL, label + ".subscribe_carries_the_configured_ttl")


def ob_subscribe_eventgroup(vc):
    w = SWorld(vc)
    srv = vc.choice("server", (w.srvA, w.srvB))
    eg = gen_eventgroup(vc, "new")
    vc.assume(eg.eventgroup_id != w.eg1.eventgroup_id and eg.eventgroup_id != w.eg2.eventgroup_id)
    vc.body(SD.ServiceSubscriber.subscribe_eventgroup)(w.sub, eg, srv)
    vc.check_eq(len(w.servers.log), 0, "subscribe_eventgroup.message_goes_through_the_loop")
    w.expect_held("subscribe_eventgroup", w.requested + [(eg, srv)], w.alive)
    vc.check((eg, srv) in w.sub.subscribeentries, "subscribe_eventgroup.remembered_for_refresh")
    w.check_frame("subscribe_eventgroup", ("prot.subscriber.subscribeentries",))


def ob_stop_subscribe_eventgroup(vc):
    w = SWorld(vc)
    vc.assume(len(w.requested) >= 1)
    eg, srv = w.requested[vc.choice("which", (0, len(w.requested) - 1))]
    vc.body(SD.ServiceSubscriber.stop_subscribe_eventgroup)(w.sub, eg, srv)
    rest = [r for r in w.requested if not (r[0] is eg and r[1] is srv)]
    w.expect_held("stop_subscribe_eventgroup", rest, w.alive)
    vc.check((eg, srv) not in w.sub.subscribeentries, "stop_subscribe_eventgroup.forgotten")
    w.check_frame("stop_subscribe_eventgroup", ("prot.subscriber.subscribeentries",))


def ob_subscribe_then_stop_same_iteration(vc):
    """both requests before the loop runs: the server must end up NOT holding the group"""
    w = SWorld(vc)
    vc.assume(w.alive)
    eg = gen_eventgroup(vc, "new")
    vc.assume(eg.eventgroup_id != w.eg1.eventgroup_id and eg.eventgroup_id != w.eg2.eventgroup_id)
    w.sub.subscribe_eventgroup(eg, w.srvA)
    w.sub.stop_subscribe_eventgroup(eg, w.srvA)
    w.expect_held("subscribe_then_stop", w.requested, True)


def _sub_head(vc, v, entering):
    vc.stash("subscribe.iteration", entering)


# the refresh loop ends by design: after one round without a refresh interval, or when cancelled in its wait
LOOPS = {("someip.sd.ServiceSubscriber._subscribe", 0): {"head": _sub_head, "may_exit": True}}


def ob_start_and_refresh(vc):
    """start(): the refresh task's (arbitrary) iteration sends, per server, Subscribe for
    exactly the currently requested eventgroups, then waits exactly the refresh interval (or
    ends at once without one); cancelled in the wait it ends quietly"""
    w = SWorld(vc)
    vc.assume(not w.alive)
    vc.body(SD.ServiceSubscriber.start)(w.sub)
    vc.check(w.sub.alive and w.sub.task is not None and len(w.loop.tasks) == 1, "start.alive_with_one_refresh_task")
    w.check_frame("start", ("prot.subscriber.alive", "prot.subscriber.task"))
    w.heap = vc.snapshot(prot=w.prot)
    log = []
    vc.arm_cut(SD.ServiceSubscriber._subscribe, 0)
    o = vc.outcome(vc.drive, vc.body(SD.ServiceSubscriber._subscribe)(w.sub), log, None, True)
    vc.check(o.kind != "raise", "refresh_task.never_raises")
    n_msgs = len(w.servers.log)
    servers_with_requests = len([1 for srv in (w.srvA, w.srvB) if len([1 for eg, s in w.requested if s == srv]) > 0])
    vc.check_eq(n_msgs, servers_with_requests, "refresh_task.one_message_per_server_with_requests")
    for entries, remote in w.servers.log:
        for e in entries:
            vc.check_eq(e.ttl, w.t.SUBSCRIBE_TTL, "refresh_task.subscribe_with_configured_ttl")
    if not w.refreshing:
        vc.cover("no-refresh")
        vc.check(o.kind == "ret" and log == [], "refresh_task.without_interval_one_round_only")
    elif ("cancel",) in log:
        vc.cover("cancelled")
        vc.check(o.kind == "ret" and log == [("cancel",)], "refresh_task.cancelled_in_the_wait_ends_quietly")
    else:
        vc.cover("refresh")
        vc.check(o.kind == "cut" and log == [("sleep", w.t.SUBSCRIBE_REFRESH_INTERVAL)], "refresh_task.next_round_exactly_one_interval_later")
    w.expect_held("refresh_task", w.requested, True)
    w.check_frame("refresh_task", ())


def ob_stop(vc):
    """stop(): afterwards (loop drained) the servers hold nothing; stopping twice is harmless;
    connection_lost stops without sending"""
    w = SWorld(vc)
    send = vc.bool("send_stop_subscribe")
    task = w.sub.task
    vc.body(SD.ServiceSubscriber.stop)(w.sub, send)
    vc.check(not w.sub.alive and w.sub.task is None, "stop.not_alive")
    w.check_frame("stop", ("prot.subscriber.alive", "prot.subscriber.task"))
    if w.alive:
        vc.check(task.cancel_requested, "stop.refresh_task_cancelled")
    if send or not w.alive:
        w.expect_held("stop", w.requested, False)
    else:
        vc.cover("silent-stop")
        w.loop.run_ready()
        vc.check_eq(len(w.servers.log), 0, "stop.without_send_transmits_nothing")
    n = len(w.servers.log)
    w.sub.stop(send)
    w.loop.run_ready()
    vc.check_eq(len(w.servers.log), n, "stop.twice_is_harmless")


# ================================================================== unbounded element-wise contracts
# The obligations above run the operations against model servers for a requested set of
# bounded shape.  The ones below state, for ARBITRARILY MANY requested eventgroups and
# servers, what each loop / comprehension of the subscriber does with ONE ARBITRARY element;
# "the servers hold exactly what is requested" is their composition (induction over the
# elements, trusted rule; cross-checked by the bounded server model).


def _gen_requested_pair(vc, name):
    return (gen_eventgroup(vc, name + ".eventgroup"), vc.opaque(name + ".server", "addr"))


def _gen_group_member(vc, name):
    return vc.opaque(name, "eventgroup")


def _gen_group(vc, name, key):
    # what has been collected for this server so far: arbitrarily many eventgroups
    return vc.sym_list(name + ".collected")


def _gen_server(vc, name):
    return vc.opaque(name, "addr")


def _gen_groups(vc, name):
    return vc.lazy_dict("groups", _gen_group, _gen_server, default=list)


def _ge_head(vc, v, entering):
    st = vc.stashed("ge")
    st["entering"] = entering
    if entering:
        eg, ep = v["$target"]
        st["pair"] = (eg, ep)
        st["groups"] = v["endpoint_entries"]
        st["before"] = vc.list_tail(v["endpoint_entries"][ep]) if ep in v["endpoint_entries"] else None
    else:
        st["result"] = v["endpoint_entries"]


def _ge_modifies(vc, v):
    eg, ep = v["$target"]
    return [v["endpoint_entries"][ep]] if ep in v["endpoint_entries"] else []


def _ge_post(vc, v):
    st = vc.stashed("ge")
    st["after"] = vc.list_tail(v["endpoint_entries"][st["pair"][1]])


def _loop_items_head(vc, v, entering):
    st = vc.stashed("items")
    st["entering"] = entering
    if entering:
        st["element"] = v["$target"]


def _ss_post(vc, v):
    st = vc.stashed("ss")
    st["element"] = (v["$target"], v["$elt"])


LOOPS.update(
    {
        # for eventgroup, endpoint in self.subscribeentries: endpoint_entries[endpoint].append(eventgroup)
        ("someip.sd.ServiceSubscriber._group_entries", 0): {"havoc": {"endpoint_entries": _gen_groups}, "head": _ge_head, "post": _ge_post, "modifies": _ge_modifies},
        # for endpoint, entries in self._group_entries().items(): ...
        ("someip.sd.ServiceSubscriber._subscribe", 1): {"head": _loop_items_head},
        ("someip.sd.ServiceSubscriber.stop", 0): {"head": _loop_items_head},
        # [e.create_subscribe_entry(ttl=ttl) for e in entries]
        ("someip.sd.ServiceSubscriber._send_subscribe", "comp", 0): {"post": _ss_post},
    }
)


def ob_group_entries(vc):
    """_group_entries over ARBITRARILY MANY requested (eventgroup, server) pairs: an arbitrary
    pair is appended to the list of exactly its server -- behind what was collected for that
    server before, creating the list if the server is new -- and nothing else changes; the
    result is the collected mapping"""
    w = SWorld(vc, light=True)
    w.sub.subscribeentries = vc.seq("requested", _gen_requested_pair)
    st = {"entering": None, "pair": None, "before": None, "after": None, "groups": None, "result": None}
    vc.stash("ge", st)
    w.heap = vc.snapshot(prot=w.prot)
    o = vc.outcome(vc.body(SD.ServiceSubscriber._group_entries), w.sub)
    vc.check(o.kind != "raise", "_group_entries.never_raises")
    w.check_frame("_group_entries", ())
    if vc.native:
        exp = {}
        for eg, ep in w.sub.subscribeentries:
            exp.setdefault(ep, []).append(eg)
        vc.check(o.kind == "ret" and dict(o.value) == exp, "_group_entries.groups_the_requested_pairs_by_server_in_order")
        return
    if st["entering"]:
        vc.cover("pair")
        eg, ep = st["pair"]
        before = st["before"] if st["before"] is not None else []
        vc.check_eq(st["after"], before + [eg], "_group_entries.pair_appended_to_the_list_of_its_server")
    else:
        vc.cover("done")
        vc.check(o.kind == "ret" and o.value is st["result"], "_group_entries.returns_the_collected_mapping")


def _groups_world(vc):
    """a subscriber whose _group_entries (by contract: ob_group_entries) yields an arbitrary
    mapping server -> eventgroups"""
    w = SWorld(vc, light=True)
    groups = vc.lazy_dict("groups", _gen_group, _gen_server)
    vc.stub(w.sub, "_group_entries", lambda: groups)
    return w, groups


def ob_refresh_round_elementwise(vc):
    """one refresh round for ARBITRARILY MANY servers: an arbitrary (server, eventgroups)
    group is handed to _send_start_subscribe exactly once, as it is; nothing else is sent"""
    w, groups = _groups_world(vc)
    started = vc.stub(w.sub, "_send_start_subscribe")
    st = {"entering": None, "element": None}
    vc.stash("items", st)
    log = []
    o = vc.outcome(vc.drive, vc.body(SD.ServiceSubscriber._subscribe)(w.sub), log, None, True)
    vc.check(o.kind != "raise", "refresh_round.never_raises")
    if vc.native:
        # a replay runs whole rounds: every round hands each group over exactly once
        items = [(k, v) for k, v in groups.items()]
        n = len(items)
        ok = (n == 0 and len(started) == 0) or (n > 0 and len(started) % n == 0 and len(started) >= n)
        for i in range(len(started)):
            if n > 0:
                ok = ok and started[i][0] is items[i % n][0] and started[i][1] is items[i % n][1]
        vc.check(ok, "refresh_round.group_sent_exactly_once")
        return
    if st["entering"]:
        vc.cover("group")
        vc.check_eq(len(started), 1, "refresh_round.group_sent_exactly_once")
        if len(started) == 1:
            vc.check(started[0][0] is st["element"][0] and started[0][1] is st["element"][1], "refresh_round.group_sent_to_its_server_as_collected")
    else:
        vc.check_eq(len(started), 0, "refresh_round.nothing_sent_beyond_the_groups")
    vc.check_eq(len(w.servers.log), 0, "refresh_round.sends_only_through_send_start_subscribe")


def ob_stop_elementwise(vc):
    """stop(send_stop_subscribe=True) for ARBITRARILY MANY servers: for an arbitrary
    (server, eventgroups) group exactly one _send_stop_subscribe(server, eventgroups) is
    queued on the loop; nothing is sent directly"""
    w, groups = _groups_world(vc)
    vc.assume(w.alive)
    st = {"entering": None, "element": None}
    vc.stash("items", st)
    n0 = len(w.loop.pending())
    o = vc.outcome(vc.body(SD.ServiceSubscriber.stop), w.sub, True)
    vc.check(o.kind != "raise", "stop.never_raises")
    if vc.native:
        pend = [p_ for p_ in w.loop.pending()[n0:] if p_[0] == w.sub._send_stop_subscribe]
        items = [(k, v) for k, v in groups.items()]
        ok = len(pend) == len(items)
        for i in range(min(len(pend), len(items))):
            ok = ok and pend[i][1][0] is items[i][0] and pend[i][1][1] is items[i][1]
        vc.check(ok, "stop.one_stop_subscribe_queued_per_server")
        return
    pend = w.loop.pending()[n0:]
    mine = [p_ for p_ in pend if p_[0] == w.sub._send_stop_subscribe]
    if st["entering"]:
        vc.cover("group")
        vc.check_eq(len(mine), 1, "stop.one_stop_subscribe_queued_per_server")
        if len(mine) == 1:
            vc.check(mine[0][1][0] is st["element"][0] and mine[0][1][1] is st["element"][1], "stop.stop_subscribe_for_that_server_with_its_eventgroups")
    else:
        vc.check_eq(len(mine), 0, "stop.nothing_queued_beyond_the_groups")
    vc.check_eq(len(w.servers.log), 0, "stop.sends_through_the_loop")


def ob_send_subscribe_elementwise(vc):
    """_send_subscribe(ttl, server, eventgroups) for ARBITRARILY MANY eventgroups: one
    message, to that server only, with one entry per eventgroup (an arbitrary one: exactly
    its create_subscribe_entry(ttl)), in the given order"""
    w = SWorld(vc, light=True)
    ttl = vc.int("ttl", 0, 0xFFFFFF)
    srv = vc.opaque("server", "addr")
    egs = vc.seq("eventgroups", gen_eventgroup)
    st = {"element": None}
    vc.stash("ss", st)
    sent = vc.stub(w.prot, "send_sd")  # plain recorder: (entries, remote)
    o = vc.outcome(vc.body(SD.ServiceSubscriber._send_subscribe), w.sub, ttl, srv, egs)
    vc.check(o.kind != "raise", "_send_subscribe.never_raises")
    if vc.native:
        vc.check_eq([(list(m[0]), m[1]) for m in sent], [([e.create_subscribe_entry(ttl=ttl) for e in egs], srv)], "_send_subscribe.one_message_with_one_entry_per_eventgroup")
        return
    if o.kind == "cut":
        vc.cover("eventgroup")
        eg, entry = st["element"]
        vc.check_eq(entry, eg.create_subscribe_entry(ttl=ttl), "_send_subscribe.entry_is_the_eventgroups_subscribe_entry_with_the_ttl")
        vc.check_eq(len(sent), 0, "_send_subscribe.nothing_sent_before_the_list_is_complete")
    else:
        vc.cover("sent")
        vc.check_eq(len(sent), 1, "_send_subscribe.exactly_one_message")
        if len(sent) == 1:
            vc.check(sent[0][1] is srv, "_send_subscribe.to_its_server_only")
            vc.check_eq(len(sent[0][0]), len(egs), "_send_subscribe.one_entry_per_eventgroup")


HARNESSES = [ob_create_subscribe_entry, ob_subscribe_eventgroup, ob_stop_subscribe_eventgroup, ob_subscribe_then_stop_same_iteration, ob_start_and_refresh, ob_stop, ob_group_entries, ob_refresh_round_elementwise, ob_stop_elementwise, ob_send_subscribe_elementwise]
EXPECT_COVERS = {
    "ob_start_and_refresh": ["no-refresh", "cancelled", "refresh"],
    "ob_stop": ["silent-stop"],
    "ob_group_entries": ["pair", "done"],
    "ob_refresh_round_elementwise": ["group"],
    "ob_stop_elementwise": ["group"],
    "ob_send_subscribe_elementwise": ["eventgroup", "sent"],
}
