"""C07 -- peer reboot is detected exactly, per sender and per channel."""
import someip.sd as SD
from contracts import spec_sd as SS
from contracts.common import gen_addr

FUNCTIONS = ["someip.sd._SessionStorage.check_received", "someip.sd.ServiceDiscoveryProtocol.message_received", "someip.sd.ServiceDiscoveryProtocol.reboot_detected (inlined)"]

ASSUMPTIONS = [
    "session storage contents are arbitrary (symbolic map over all sender addresses and both channels)",
    "sender addresses are opaque values compared by equality (they are hashable tuples in the real code)",
    "session ids range over 0..0xFFFF, flags over both values",
]


def ob_lemma_last_seen(vc):
    """after any call the record for (sender, channel) is the pair just seen and no other
    record changed: 'previous message from the same sender on the same channel' is what
    the next call compares with (induction step of the history lemma, over the contract)"""
    a, b = SS.gen_storage(vc, "st")
    sender = gen_addr(vc, "sender")
    multicast = vc.bool("multicast")
    flag = vc.bool("flag")
    sid = vc.int("session_id", 0, 0xFFFF)
    other_sender = gen_addr(vc, "other_sender")
    other_mc = vc.bool("other_multicast")
    before = a.incoming.get((other_sender, other_mc))
    a.check_received(sender, multicast, flag, sid)
    vc.check_eq(a.incoming.get((sender, multicast)), (flag, sid), "history.last_seen_recorded")
    if not (other_sender == sender and other_mc == multicast):
        vc.cover("other-key")
        vc.check_eq(a.incoming.get((other_sender, other_mc)), before, "history.other_keys_untouched")


def ob_lemma_detection_rule(vc):
    """over the contract: first message never detects; otherwise exactly the statement's rule;
    other senders / the other channel neither trigger nor mask"""
    a, b = SS.gen_storage(vc, "st")
    sender = gen_addr(vc, "sender")
    multicast = vc.bool("multicast")
    f1 = vc.bool("flag1")
    s1 = vc.int("sid1", 0, 0xFFFF)
    f2 = vc.bool("flag2")
    s2 = vc.int("sid2", 0, 0xFFFF)
    o_sender = gen_addr(vc, "o_sender")
    o_mc = vc.bool("o_multicast")
    of = vc.bool("o_flag")
    os_ = vc.int("o_sid", 0, 0xFFFF)
    vc.assume(not (o_sender == sender and o_mc == multicast))
    a.check_received(sender, multicast, f1, s1)
    # an interleaved message from another sender or on the other channel
    a.check_received(o_sender, o_mc, of, os_)
    r = a.check_received(sender, multicast, f2, s2)
    expected = f2 and ((not f1) or s2 <= s1)
    # (a native run exercises the real check_received: the region of known finding D11 gets
    # its own obligation name, as in the refinement obligation)
    region = "@prev_session_id_0" if (f1 and f2 and s1 == 0) else ""
    vc.check_eq(r, expected, "detection.exactly_the_rule_despite_interleaving" + region)
    # flag going from set to clear (wrap-around) never detects
    if not f2:
        vc.cover("flag-cleared")
        vc.check(not r, "detection.set_to_clear_is_no_reboot")


def ob_lemma_first_message(vc):
    a, b = SS.gen_storage(vc, "st")
    sender = gen_addr(vc, "sender")
    multicast = vc.bool("multicast")
    flag = vc.bool("flag")
    sid = vc.int("session_id", 0, 0xFFFF)
    vc.assume(a.incoming.get((sender, multicast)) is None)
    vc.check(not a.check_received(sender, multicast, flag, sid), "detection.first_message_never")


def canary_no_detection(vc):
    """must be refuted: claims that no reboot is ever detected"""
    a, b = SS.gen_storage(vc, "st")
    sender = gen_addr(vc, "sender")
    r = a.check_received(sender, vc.bool("multicast"), vc.bool("flag"), vc.int("session_id", 0, 0xFFFF))
    vc.check(not r, "canary")


HARNESSES = SS.MESSAGE_RECEIVED_OBLIGATIONS + [
    SS.ob_check_received_refines,
    ob_lemma_last_seen,
    ob_lemma_detection_rule,
    ob_lemma_first_message,
    canary_no_detection,
]

EXPECT_COVERS = {"ob_lemma_last_seen": ["other-key"], "ob_lemma_detection_rule": ["flag-cleared"]}
