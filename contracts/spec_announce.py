"""Shared world and obligations for the announcing (server) side of someip.sd."""
import ipaddress

import someip.config as C
import someip.header as H
import someip.sd as SD
from contracts import looplib as LL
from contracts.common import check_frame, gen_addr
from contracts import spec_config as SCFG
from contracts import spec_sd as SS

TTL_FOREVER = 0xFFFFFF


class ServerRecorder(SD.ServerServiceListener):
    VC_MODEL = True  # environment model (write-only recorder): outside the frames of loop contracts

    """server-side listener: records, and rejects when told to"""

    def __init__(self, log, reject):
        self.log = log
        self.reject = reject

    def client_subscribed(self, subscription, source):
        if self.reject:
            raise SD.NakSubscription()
        self.log.append(("subscribed", subscription, source))

    def client_unsubscribed(self, subscription, source):
        self.log.append(("unsubscribed", subscription, source))


def gen_endpoint_option(vc, name):
    return H.IPv4EndpointOption(
        address=ipaddress.IPv4Address(vc.bytes_fixed(name + ".address", 4)),
        l4proto=vc.choice(name + ".l4proto", (H.L4Protocols.UDP, H.L4Protocols.TCP)),
        port=vc.int(name + ".port", 0, 0xFFFF),
    )


ALL_SHAPES = ("one-endpoint", "none", "two-endpoints", "endpoint+other")


# ---- contract of EventgroupSubscription.from_subscribe_entry, as its callers see it: the ids,
# the eventgroup id and counter (low 16 / next 4 bits), the TTL -- and an endpoint set and a
# tuple of other options that are SOME function of the entry's options (whatever their
# number).  Callers only ever use the endpoint set as part of the subscription's identity.
# ob_from_subscribe_entry verifies the real loop element-wise (an arbitrary option goes to
# exactly one of the two collections, by its class) for arbitrarily many options.


def endpoints_of(options_1, options_2):
    return frozenset(o for o in tuple(options_1) + tuple(options_2) if isinstance(o, H.EndpointOption))


def other_options_of(options_1, options_2):
    return tuple(o for o in tuple(options_1) + tuple(options_2) if not isinstance(o, H.EndpointOption))


def _abs_endpoints(vc, name, options_1, options_2):
    return vc.opaque(name, "frozenset")


def _abs_other_options(vc, name, options_1, options_2):
    return vc.opaque_seq(name, "option")


def from_subscribe_entry(cls, entry):
    return cls(
        service_id=entry.service_id,
        instance_id=entry.instance_id,
        major_version=entry.major_version,
        id=entry.minver_or_counter % 65536,
        counter=(entry.minver_or_counter // 65536) % 16,
        ttl=entry.ttl,
        endpoints=endpoints_of(entry.options_1, entry.options_2),
        options=other_options_of(entry.options_1, entry.options_2),
    )


CONTRACTS = {"someip.sd.EventgroupSubscription.from_subscribe_entry": from_subscribe_entry}
ABSTRACT = {
    endpoints_of: {"gen": _abs_endpoints, "raises": ()},
    other_options_of: {"gen": _abs_other_options, "raises": ()},
}


def gen_subscribe_entry(vc, name, max_ttl=TTL_FOREVER, shapes=ALL_SHAPES):
    """Subscribe entry with resolved options: "many" = arbitrarily many options of any kind;
    the other shapes: zero, one or two endpoint options and optionally one other option"""
    shape = vc.choice(name + ".options", shapes)
    if shape == "many":
        # ARBITRARILY MANY options of any kind (their handling is from_subscribe_entry's contract)
        opts = vc.opaque_seq(name + ".option_run", "option")
    elif shape == "none":
        opts = ()
    elif shape == "one-endpoint":
        opts = (gen_endpoint_option(vc, name + ".ep0"),)
    elif shape == "two-endpoints":
        opts = (gen_endpoint_option(vc, name + ".ep0"), gen_endpoint_option(vc, name + ".ep1"))
    else:
        opts = (gen_endpoint_option(vc, name + ".ep0"), H.SOMEIPSDLoadBalancingOption(priority=vc.int(name + ".prio", 0, 0xFFFF), weight=1))
    return H.SOMEIPSDEntry(
        sd_type=H.SOMEIPSDEntryType.Subscribe,
        service_id=vc.int(name + ".service_id", 0, 0xFFFF),
        instance_id=vc.int(name + ".instance_id", 0, 0xFFFF),
        major_version=vc.int(name + ".major_version", 0, 0xFF),
        ttl=vc.int(name + ".ttl", 0, max_ttl),
        minver_or_counter=vc.int(name + ".counter", 0, 15) * 65536 + vc.int(name + ".eventgroup_id", 0, 0xFFFF),
        options_1=opts,
    )


class AWorld:
    """an announcer with one service instance in an arbitrary state"""

    def __init__(self, vc, name="a", entry=None, stub_queue=True, track=("A_sub",), shapes=("many",), others=(0,)):
        self.vc = vc
        self.loop = vc.install_loop(LL.FakeLoop(vc.real(name + ".now", 0)))
        self.prot, self.sent = SS.gen_sd_protocol(vc, name + ".prot")
        self.ann = self.prot.announcer
        self.log = []
        self.reject = vc.bool(name + ".listener_rejects")
        self.listener = ServerRecorder(self.log, self.reject)
        self.entry = entry if entry is not None else gen_subscribe_entry(vc, name + ".entry", shapes=shapes)
        self.service = SCFG.gen_service_with_groups(vc, name + ".service", [self.entry.minver_or_counter % 65536])
        if vc.native and vc.bool(name + ".service_is_the_one_the_entry_names"):
            # generated ids hardly ever coincide: a bounded search needs the matching case named
            self.service = C.Service(
                service_id=self.entry.service_id,
                instance_id=self.entry.instance_id,
                major_version=self.entry.major_version,
                minor_version=self.service.minor_version,
                eventgroups=frozenset([self.entry.minver_or_counter % 65536]),
            )
        self.inst = SD.ServiceInstance(self.service, self.listener, self.ann, self.prot.timings)
        self.running = vc.bool(name + ".running")
        if self.running:
            self.inst._task = LL.Task(self.loop, None)
            # the offer task of a non-cyclic instance ends on its own; the instance is still
            # announced (running) until it is stopped
            self.inst._task.finished = vc.bool(name + ".offer_task_finished")
        # the statement's premise: at most one instance matches a given entry -- up to two
        # further instances (the property quantifies over zero to three) that do not claim it,
        # announced before or after the instance of interest
        n_others = vc.choice(name + ".other_instances", others)
        first = n_others > 0 and vc.bool(name + ".other_instance_first")
        self.others = []
        for i in range(n_others):
            svc = SCFG.gen_service_with_groups(vc, name + ".other" + str(i) + ".service", [self.entry.minver_or_counter % 65536])
            oi = SD.ServiceInstance(svc, ServerRecorder(self.log, False), self.ann, self.prot.timings)
            if vc.bool(name + ".other" + str(i) + ".running"):
                oi._task = LL.Task(self.loop, None)
                vc.assume(not svc.matches_subscribe(self.entry))
            self.others.append(oi)
        if first:
            self.ann.announcing_services.append(self.others[0])
        self.ann.announcing_services.append(self.inst)
        for i, oi in enumerate(self.others):
            if not (first and i == 0):
                self.ann.announcing_services.append(oi)
        self.ann.started = True
        self.queued = vc.stub(self.ann, "queue_send") if stub_queue else None
        self.A = vc.opaque(name + ".A", "addr")
        self.B = vc.opaque(name + ".B", "addr")
        vc.assume(self.A != self.B)
        self.sub = SD.EventgroupSubscription.from_subscribe_entry(self.entry)
        # the instance holds arbitrarily many subscriptions (vc.lazy_dict); every existing
        # record carries the listener's 'unsubscribed' callback and None or a live timer
        ts = self.inst.subscriptions
        ts.store = vc.lazy_dict(name + ".subscriptions", self.gen_inner, self.gen_addr, default=dict)
        self.other = vc.opaque(name + ".other_subscription", "subscription")  # an arbitrary other record
        # a parallel subscription of the same sender that differs in the counter only
        c2 = vc.int(name + ".parallel_counter", 0, 15)
        vc.assume(c2 != self.sub.counter)
        self.parallel = SD.EventgroupSubscription(service_id=self.sub.service_id, instance_id=self.sub.instance_id, major_version=self.sub.major_version, id=self.sub.id, counter=c2, ttl=self.sub.ttl, endpoints=self.sub.endpoints)
        # records the obligation talks about are looked at (materialised) up front
        self.slots = {}
        for tag, addr, key in (("A_sub", self.A, self.sub), ("B_sub", self.B, self.sub), ("A_other", self.A, self.other), ("A_parallel", self.A, self.parallel)):
            if tag in track:
                self.slots[(addr, key)] = self.state(addr, key)
        self.snap = vc.snapshot(inst=self.inst, prot=self.prot, others=self.others)

    def check_frame(self, label, allowed=()):
        """besides the subscription records of the instance (whose slot-level frame the
        obligations state) nothing of the instance, the other instances, the announcer or
        the protocol object changes"""
        check_frame(self.vc, self.snap, label, ("inst.subscriptions.store*",) + tuple(allowed))

    def gen_addr(self, vc, name):
        return vc.opaque(name, "addr")

    def gen_sub_key(self, vc, name):
        return vc.opaque(name, "subscription")

    def gen_inner(self, vc, name, addr):
        ts = self.inst.subscriptions

        def gen_record(vc2, name2, key):
            if vc2.choice(name2 + ".kind", ("timer", "forever")) == "forever":
                return (self.listener.client_unsubscribed, None)
            h = self.loop.call_later(vc2.real(name2 + ".remaining", 0), ts._expired, addr, key)
            return (self.listener.client_unsubscribed, h)

        return vc.lazy_dict(name + ".records", gen_record, self.gen_sub_key)

    def state(self, addr, key):
        if not self.held(addr, key):
            return None
        h = self.inst.subscriptions.store[addr][key][1]
        return ("forever", None) if h is None else ("timer", h)

    def held(self, addr, key):
        ts = self.inst.subscriptions
        return addr in ts.store and key in ts.store[addr]

    def snapshot(self):
        return {slot: self.held(slot[0], slot[1]) for slot in self.slots}

    def events(self, key, source):
        return [e[0] for e in self.log if e[1] == key and e[2] == source]

    def check_step(self, label, before):
        """monitor step: the listener is told 'subscribed' exactly when a subscription
        becomes held, 'unsubscribed' exactly when it stops being held, nothing otherwise"""
        vc = self.vc
        self.loop.run_ready()
        for slot in self.slots:
            addr, key = slot
            was, now = before[slot], self.held(addr, key)
            # counted without a case split on which log entries concern this record
            n_sub = vc.count([e[0] == "subscribed" and e[1] == key and e[2] == addr for e in self.log])
            n_unsub = vc.count([e[0] == "unsubscribed" and e[1] == key and e[2] == addr for e in self.log])
            if was and not now:
                vc.check(n_unsub == 1 and n_sub == 0, label + ".release_reported_unsubscribed_once")
            elif now and not was:
                vc.check(n_sub == 1 and n_unsub == 0, label + ".acceptance_reported_subscribed_once")
            else:
                vc.check(n_sub == 0 and n_unsub == 0, label + ".no_change_no_notification")
        self.check_frame(label)

    def expected_ack(self, ttl):
        e = self.entry
        return H.SOMEIPSDEntry(
            sd_type=H.SOMEIPSDEntryType.SubscribeAck,
            service_id=e.service_id,
            instance_id=e.instance_id,
            major_version=e.major_version,
            ttl=ttl,
            minver_or_counter=e.minver_or_counter,
        )


def ob_subscription_echo(vc):
    """from_subscribe_entry / to_ack_entry / to_nack_entry: the acknowledgement echoes
    service, instance, major version, eventgroup id and counter; Ack carries the requested
    TTL, Nack TTL 0; endpoint options are told apart from other options"""
    e = gen_subscribe_entry(vc, "e")
    s = vc.body(SD.EventgroupSubscription.from_subscribe_entry)(e)
    vc.check_eq((s.service_id, s.instance_id, s.major_version), (e.service_id, e.instance_id, e.major_version), "from_subscribe_entry.ids")
    vc.check_eq(s.id, e.minver_or_counter % 65536, "from_subscribe_entry.eventgroup_id")
    vc.check_eq(s.counter, (e.minver_or_counter // 65536) % 16, "from_subscribe_entry.counter")
    vc.check_eq(s.ttl, e.ttl, "from_subscribe_entry.ttl")
    n_ep = len([o for o in e.options_1 if isinstance(o, H.EndpointOption)])
    vc.check_eq(len(s.endpoints) <= n_ep and len(s.options) == len(e.options_1) - n_ep, True, "from_subscribe_entry.endpoint_options_separated")
    for o in e.options_1:
        if isinstance(o, H.EndpointOption):
            vc.check(o in s.endpoints, "from_subscribe_entry.every_endpoint_kept")
    if len(e.options_1) == 2:
        vc.cover("two-options")
        swapped = H.SOMEIPSDEntry(sd_type=e.sd_type, service_id=e.service_id, instance_id=e.instance_id, major_version=e.major_version, ttl=e.ttl, minver_or_counter=e.minver_or_counter, options_1=(e.options_1[1], e.options_1[0]))
        vc.check_eq(vc.body(SD.EventgroupSubscription.from_subscribe_entry)(swapped), s, "from_subscribe_entry.identity_does_not_depend_on_the_order_of_the_endpoint_options")
    ack = vc.body(SD.EventgroupSubscription.to_ack_entry)(s)
    nack = vc.body(SD.EventgroupSubscription.to_nack_entry)(s)
    exp = H.SOMEIPSDEntry(
        sd_type=H.SOMEIPSDEntryType.SubscribeAck,
        service_id=e.service_id,
        instance_id=e.instance_id,
        major_version=e.major_version,
        ttl=e.ttl,
        minver_or_counter=e.minver_or_counter,
    )
    vc.check_eq(ack, exp, "to_ack_entry.echoes_request_with_requested_ttl")
    vc.check_eq(nack, H.SOMEIPSDEntry(sd_type=exp.sd_type, service_id=exp.service_id, instance_id=exp.instance_id, major_version=exp.major_version, ttl=0, minver_or_counter=exp.minver_or_counter), "to_nack_entry.echoes_request_with_ttl_0")
    vc.check_eq(len(ack.options_1) + len(ack.options_2) + len(nack.options_1) + len(nack.options_2), 0, "ack.carries_no_options")


def _gen_any_option(vc, name):
    if vc.choice(name + ".kind", ("endpoint", "other")) == "endpoint":
        return gen_endpoint_option(vc, name)
    return H.SOMEIPSDLoadBalancingOption(priority=vc.int(name + ".prio", 0, 0xFFFF), weight=vc.int(name + ".weight", 0, 0xFFFF))


def _fse_head(vc, v, entering):
    st = vc.stashed("fse")
    st["entering"] = entering
    st["endpoints"] = v["endpoints"]
    st["options"] = v["options"]
    if entering:
        st["option"] = v["$target"]
        st["before"] = (vc.list_tail(v["endpoints"]), vc.list_tail(v["options"]))


def _fse_post(vc, v):
    st = vc.stashed("fse")
    st["after"] = (vc.list_tail(v["endpoints"]), vc.list_tail(v["options"]))


def _gen_collected(vc, name):
    return vc.sym_list(name)


LOOPS = {
    ("someip.sd.EventgroupSubscription.from_subscribe_entry", 0): {"havoc": {"endpoints": _gen_collected, "options": _gen_collected}, "head": _fse_head, "post": _fse_post},
}


def ob_from_subscribe_entry(vc):
    """from_subscribe_entry for an entry with ARBITRARILY MANY options in its two runs (loop
    contract): an arbitrary option is appended to the endpoints iff it is an endpoint option,
    to the other options otherwise, and to nothing else; the result carries the ids, the
    eventgroup id and counter, the TTL, the SET of the collected endpoints and the tuple of
    the collected other options"""
    e = H.SOMEIPSDEntry(
        sd_type=H.SOMEIPSDEntryType.Subscribe,
        service_id=vc.int("e.service_id", 0, 0xFFFF),
        instance_id=vc.int("e.instance_id", 0, 0xFFFF),
        major_version=vc.int("e.major_version", 0, 0xFF),
        ttl=vc.int("e.ttl", 0, TTL_FOREVER),
        minver_or_counter=vc.int("e.counter", 0, 15) * 65536 + vc.int("e.eventgroup_id", 0, 0xFFFF),
        options_1=vc.seq("e.options_1", _gen_any_option),
        options_2=vc.seq("e.options_2", _gen_any_option),
    )
    st = {"entering": None, "option": None, "before": None, "after": None, "endpoints": None, "options": None}
    vc.stash("fse", st)
    o = vc.outcome(vc.body(SD.EventgroupSubscription.from_subscribe_entry), e)
    vc.check(o.kind != "raise", "from_subscribe_entry.never_raises")
    if vc.native:
        s = o.value
        alls = tuple(e.options_1) + tuple(e.options_2)
        vc.check_eq(s.endpoints, frozenset(x for x in alls if isinstance(x, H.EndpointOption)), "from_subscribe_entry.endpoints_are_exactly_the_endpoint_options")
        vc.check_eq(s.options, tuple(x for x in alls if not isinstance(x, H.EndpointOption)), "from_subscribe_entry.other_options_kept_in_order")
        return
    if st["entering"]:
        vc.cover("option")
        opt = st["option"]
        is_ep = isinstance(opt, H.EndpointOption)
        vc.check_eq(st["after"][0], st["before"][0] + ([opt] if is_ep else []), "from_subscribe_entry.endpoint_option_joins_the_endpoints_and_only_them")
        vc.check_eq(st["after"][1], st["before"][1] + ([] if is_ep else [opt]), "from_subscribe_entry.other_option_joins_the_options_and_only_them")
    else:
        vc.cover("result")
        vc.check(o.kind == "ret", "from_subscribe_entry.returns")
        s = o.value
        vc.check_eq((s.service_id, s.instance_id, s.major_version, s.ttl), (e.service_id, e.instance_id, e.major_version, e.ttl), "from_subscribe_entry.ids_and_ttl")
        vc.check_eq(s.id, e.minver_or_counter % 65536, "from_subscribe_entry.eventgroup_id")
        vc.check_eq(s.counter, (e.minver_or_counter // 65536) % 16, "from_subscribe_entry.counter")
        vc.check(s.endpoints is frozenset(st["endpoints"]), "from_subscribe_entry.endpoints_is_the_set_of_the_collected_endpoint_options")
        vc.check_eq(s.options, tuple(st["options"]), "from_subscribe_entry.options_is_the_tuple_of_the_collected_other_options")


def ob_instance_handle_subscribe(vc):
    """ServiceInstance.handle_subscribe for an arbitrary Subscribe / StopSubscribe entry, any
    instance state, any listener decision, any prior subscription state"""
    w = AWorld(vc, track=("A_sub", "B_sub", "A_other", "A_parallel"))
    before = w.snapshot()
    matches = w.service.matches_subscribe(w.entry)
    r = vc.body(SD.ServiceInstance.handle_subscribe)(w.inst, w.entry, w.A)
    if not w.running or not matches:
        vc.cover("not-mine")
        vc.check(r is False, "instance.handle_subscribe.declines_when_stopped_or_not_matching")
        vc.check_eq(len(w.queued), 0, "instance.handle_subscribe.declined_sends_nothing")
        after = w.snapshot()
        vc.check_eq([after[k] for k in w.slots], [before[k] for k in w.slots], "instance.handle_subscribe.declined_changes_nothing")
        vc.check_eq(w.log, [], "instance.handle_subscribe.declined_tells_nobody")
        w.check_frame("instance.handle_subscribe.declined")
        return
    vc.check(r is True, "instance.handle_subscribe.claims_the_entry")
    if w.entry.ttl == 0:
        vc.cover("stop-subscribe")
        vc.check_eq(len(w.queued), 0, "instance.handle_subscribe.stop_subscribe_gets_no_answer")
        vc.check(not w.held(w.A, w.sub), "instance.handle_subscribe.stop_subscribe_releases")
    elif w.reject and before[(w.A, w.sub)] is False:
        vc.cover("rejected")
        vc.check_eq(w.queued, [(w.expected_ack(0), w.A)], "instance.handle_subscribe.rejected_gets_one_nack_to_sender")
        vc.check(not w.held(w.A, w.sub), "instance.handle_subscribe.rejected_not_recorded")
    else:
        vc.cover("accepted")
        vc.check_eq(w.queued, [(w.expected_ack(w.entry.ttl), w.A)], "instance.handle_subscribe.accepted_gets_one_ack_with_requested_ttl_to_sender")
        vc.check(w.held(w.A, w.sub), "instance.handle_subscribe.acknowledged_subscription_is_held")
        if w.held(w.A, w.sub):
            h = w.inst.subscriptions.store[w.A][w.sub][1]
            if w.entry.ttl == TTL_FOREVER:
                vc.check(h is None, "instance.handle_subscribe.infinite_ttl_never_expires")
            else:
                vc.check(h is not None and h.when == w.loop.now + w.entry.ttl and not h.cancelled_, "instance.handle_subscribe.held_until_ttl_after_this_subscribe")
    vc.check_eq(w.held(w.B, w.sub), before[(w.B, w.sub)], "instance.handle_subscribe.other_subscribers_untouched")
    vc.check_eq(w.held(w.A, w.other), before[(w.A, w.other)], "instance.handle_subscribe.other_records_untouched")
    vc.check_eq(w.held(w.A, w.parallel), before[(w.A, w.parallel)], "instance.handle_subscribe.parallel_subscription_with_other_counter_untouched")
    w.check_step("instance.handle_subscribe", before)


def ob_announcer_handle_subscribe(vc):
    """ServiceAnnouncer.handle_subscribe: exactly one answer per Subscribe with non-zero
    TTL, to the sender only: the instance's Ack/Nack if one (running, matching) instance
    claims the entry, one Nack from the announcer otherwise; a StopSubscribe for a known
    eventgroup gets no answer"""
    w = AWorld(vc, others=(0, 1, 2))
    matches = w.service.matches_subscribe(w.entry)
    vc.body(SD.ServiceAnnouncer.handle_subscribe)(w.ann, w.entry, w.A)
    claimed = w.running and matches
    if w.entry.ttl == 0 and claimed:
        vc.cover("stop-subscribe")
        vc.check_eq(len(w.queued), 0, "announcer.handle_subscribe.stop_subscribe_of_known_eventgroup_unanswered")
    elif w.entry.ttl != 0:
        vc.cover("subscribe")
        vc.check_eq(len(w.queued), 1, "announcer.handle_subscribe.exactly_one_answer")
        if len(w.queued) == 1:
            positive = claimed and not (w.reject and not w.slots[(w.A, w.sub)])
            vc.check_eq(w.queued[0], (w.expected_ack(w.entry.ttl if positive else 0), w.A), "announcer.handle_subscribe.ack_iff_accepted_by_a_running_matching_instance_else_nack")
    w.check_frame("announcer.handle_subscribe")


def ob_subscription_expiry(vc):
    w = AWorld(vc)
    st = w.slots[(w.A, w.sub)]
    vc.assume(st is not None and st[1] is not None)
    before = w.snapshot()
    w.loop.fire(st[1])
    vc.check(not w.held(w.A, w.sub), "subscription_expiry.released")
    w.check_step("subscription_expiry", before)


def _mass_release(vc, w, o, label, addr_of_interest):
    """shared by reboot of a subscriber and stop of the instance: the store is walked by
    TimedStore.stop_all_for_address / stop_all (loops verified for one arbitrary record):
    that record is reported 'unsubscribed' exactly once, before the call returns"""
    vc.check(o.kind != "raise", label + ".never_raises")
    vc.check_eq(len(w.loop.ready), 0, label + ".defers_nothing")
    if vc.native:
        for slot, st in w.slots.items():
            if st is not None and (addr_of_interest is None or slot[0] == addr_of_interest):
                vc.check_eq(w.events(slot[1], slot[0]), ["unsubscribed"], label + ".released_record_reported_unsubscribed_once")
        return
    if o.kind == "cut" and vc.stashed("saa.entering"):
        vc.cover("record")
        key = vc.stashed("saa.element")[0]
        handle = vc.stashed("saa.element")[2]
        addr = addr_of_interest if addr_of_interest is not None else vc.stashed("sa.addr")
        vc.check_eq(w.log, [("unsubscribed", key, addr)], label + ".record_reported_unsubscribed_exactly_once")
        if handle is not None:
            vc.check(handle.cancelled_, label + ".record_timer_cancelled")
        vc.check(not w.held(addr, key), label + ".record_released")
    else:
        vc.check_eq(w.log, [], label + ".nothing_reported_beyond_the_records")


def ob_subscriber_reboot(vc):
    w = AWorld(vc, track=("A_sub", "B_sub", "A_other"))
    before = w.snapshot()
    o = vc.outcome(vc.body(SD.ServiceAnnouncer.reboot_detected), w.ann, w.A)
    _mass_release(vc, w, o, "announcer.reboot_detected", w.A)
    vc.check(not w.held(w.A, w.sub) and not w.held(w.A, w.other), "announcer.reboot_detected.subscriber_forgotten")
    vc.check_eq(w.held(w.B, w.sub), before[(w.B, w.sub)], "announcer.reboot_detected.other_subscribers_kept")
    w.check_frame("announcer.reboot_detected")


def ob_instance_stop(vc):
    w = AWorld(vc, track=("A_sub", "B_sub", "A_other"))
    vc.assume(w.running)
    o = vc.outcome(vc.body(SD.ServiceInstance.stop), w.inst)
    _mass_release(vc, w, o, "instance.stop", None)
    if o.kind == "ret":
        vc.cover("done")
        vc.check(not w.held(w.A, w.sub) and not w.held(w.B, w.sub) and not w.held(w.A, w.other), "instance.stop.releases_every_subscription")
    w.check_frame("instance.stop", ("inst._task", "inst._can_answer_offers"))


def ob_subscribe_after_reboot(vc):
    """the Subscribe of a message that revealed a reboot is handled after the reboot has
    been applied (message_received: reboot before entries; reboot handling reports and
    releases everything before it returns): the sender's records are gone, so the
    subscription acknowledged by this message is recorded anew and stays recorded"""
    w = AWorld(vc)
    vc.assume(w.running and not w.reject and w.entry.ttl != 0)
    vc.assume(w.service.matches_subscribe(w.entry))
    vc.assume(not w.held(w.A, w.sub))  # state after reboot_detected(A)
    sdhdr = H.SOMEIPSDHeader(entries=(w.entry,), flag_unicast=True)
    w.prot.sd_message_received(sdhdr, w.A, False)
    w.loop.run_ready()
    vc.check(w.held(w.A, w.sub), "reboot.subscription_of_the_same_message_is_held")
    vc.check_eq(w.queued, [(w.expected_ack(w.entry.ttl), w.A)], "reboot.subscribe_positively_acknowledged")
    vc.check_eq(w.events(w.sub, w.A), ["subscribed"], "reboot.new_subscription_reported_after_the_release")
    w.check_frame("reboot.subscribe")


SERVER_SUBSCRIPTION_OBLIGATIONS = [
    ob_subscription_echo,
    ob_from_subscribe_entry,
    ob_instance_handle_subscribe,
    ob_announcer_handle_subscribe,
    ob_subscription_expiry,
    ob_subscriber_reboot,
    ob_instance_stop,
    ob_subscribe_after_reboot,
]

BOUNDED = []  # instances per announcer: one to three, the properties' own quantifier; options per entry: unbounded


# ============================================================================ FindService (C12)


class FWorld:
    """an announcer with one to three service instances in arbitrary states (the property
    quantifies over one to three instances)"""

    def __init__(self, vc, name="f"):
        self.vc = vc
        self.loop = vc.install_loop(LL.FakeLoop(vc.real(name + ".now", 0)))
        self.prot, self.sent = SS.gen_sd_protocol(vc, name + ".prot")
        self.ann = self.prot.announcer
        t = self.prot.timings
        t.REQUEST_RESPONSE_DELAY_MIN = vc.real(name + ".delay_min", 0)
        t.REQUEST_RESPONSE_DELAY_MAX = vc.real(name + ".delay_max", 0)
        vc.assume(t.REQUEST_RESPONSE_DELAY_MIN <= t.REQUEST_RESPONSE_DELAY_MAX)
        t.ANNOUNCE_TTL = vc.int(name + ".announce_ttl", 1, TTL_FOREVER)
        # an instance may be announced with timings of its own
        self.inst_timings = SD.Timings()
        self.inst_timings.ANNOUNCE_TTL = vc.int(name + ".instance_announce_ttl", 1, TTL_FOREVER)
        self.insts = []
        for i in range(vc.choice(name + ".instances", (2, 1, 3))):
            svc = SCFG.gen_service(vc, name + ".svc" + str(i))
            inst = SD.ServiceInstance(svc, ServerRecorder([], False), self.ann, self.inst_timings)
            inst._can_answer_offers = vc.bool(name + ".inst" + str(i) + ".ready")
            if vc.bool(name + ".inst" + str(i) + ".running"):
                inst._task = LL.Task(self.loop, None)
            else:
                # a stopped instance (or one not yet started) is never ready
                vc.assume(not inst._can_answer_offers)
            self.ann.announcing_services.append(inst)
            self.insts.append(inst)
        self.ann.started = True
        self.A = vc.opaque(name + ".A", "addr")


def ob_instance_matches_find(vc):
    w = FWorld(vc)
    find = SCFG.gen_entry(vc, "find", sd_type=H.SOMEIPSDEntryType.FindService, resolved=True)
    inst = w.insts[0]
    snap = vc.snapshot(prot=w.prot, insts=w.insts)
    r = vc.body(SD.ServiceInstance.matches_find)(inst, find, w.A)
    vc.check_eq(r, inst._can_answer_offers and inst.service.matches_find(find), "instance.matches_find.ready_and_matching")
    check_frame(vc, snap, "instance.matches_find", ())


def ob_handle_findservice(vc):
    """every ready instance whose description matches the request answers exactly once, to
    the requester only: immediately (queued on the loop) for a unicast request, after a
    delay inside the request-response window for a multicast request; nobody else answers"""
    w = FWorld(vc)
    find = SCFG.gen_entry(vc, "find", sd_type=H.SOMEIPSDEntryType.FindService, resolved=True)
    multicast = vc.bool("multicast")
    queued = vc.stub(w.ann, "queue_send")
    snap = vc.snapshot(prot=w.prot, insts=w.insts)
    vc.body(SD.ServiceAnnouncer.handle_findservice)(w.ann, find, w.A, multicast)
    answering = [i for i in w.insts if i._can_answer_offers and i.service.matches_find(find)]
    vc.check_eq(len(queued) + len(w.sent), 0, "handle_findservice.sends_nothing_itself")
    t = w.prot.timings
    if multicast:
        vc.cover("multicast")
        vc.check_eq(len(w.loop.ready), 0, "handle_findservice.multicast.nothing_immediate")
        vc.check_eq(len(w.loop.timers), len(answering), "handle_findservice.multicast.one_delayed_answer_per_matching_ready_instance")
        if len(w.loop.timers) == len(answering):
            for k in range(len(answering)):
                h = w.loop.timers[k]
                vc.check(h.callback == answering[k]._send_offer and h.args == (w.A,), "handle_findservice.multicast.answer_is_an_offer_to_the_requester")
                d = h.when - w.loop.now
                vc.check(t.REQUEST_RESPONSE_DELAY_MIN <= d and d <= t.REQUEST_RESPONSE_DELAY_MAX, "handle_findservice.multicast.delay_inside_the_window")
    else:
        vc.cover("unicast")
        vc.check_eq(len(w.loop.timers), 0, "handle_findservice.unicast.no_added_delay")
        vc.check_eq(w.loop.pending(), [(i._send_offer, (w.A,)) for i in answering], "handle_findservice.unicast.one_answer_per_matching_ready_instance")
    if len(answering) >= 2:
        vc.cover("both")
    if len(answering) == 0:
        vc.cover("nobody")
    check_frame(vc, snap, "handle_findservice", ())


def ob_send_offer(vc):
    """_send_offer(remote): one offer with the configured TTL and the service's ids, minor
    version and options, queued for exactly that destination; stop=True: TTL 0; a delayed
    answer that fires after the instance was stopped sends nothing"""
    w = FWorld(vc)
    inst = w.insts[0]
    queued = vc.stub(w.ann, "queue_send")
    stop = vc.bool("stop")
    if vc.bool("to_multicast"):
        remote = None
    else:
        remote = w.A
    snap = vc.snapshot(prot=w.prot, insts=w.insts)
    vc.body(SD.ServiceInstance._send_offer)(inst, remote, stop)
    check_frame(vc, snap, "_send_offer", ())
    if inst._task is None and not stop:
        vc.cover("stopped")
        vc.check_eq(len(queued), 0, "_send_offer.nothing_follows_a_stop")
    else:
        ttl = 0 if stop else inst.timings.ANNOUNCE_TTL
        exp = inst.service.create_offer_entry(ttl)
        vc.check_eq(len(queued), 1, "_send_offer.queues_one_entry")
        if len(queued) == 1:
            vc.check_eq(queued[0][0], exp, "_send_offer.offer_entry_of_the_service_with_configured_ttl")
            vc.check_eq(queued[0][0].options_1, inst.service.options_1, "_send_offer.options_1")
            vc.check_eq(queued[0][0].options_2, inst.service.options_2, "_send_offer.options_2")
            vc.check_eq(queued[0][1], remote, "_send_offer.destination")


FIND_OBLIGATIONS = [ob_instance_matches_find, ob_handle_findservice, ob_send_offer]


# ============================================================================ send collection (C15)


class QWorld:
    """an announcer whose send queues are in an arbitrary state: for the destination of
    interest no collector, an open one (ARBITRARILY MANY entries queued so far) or an expired
    one; an open collector for another destination"""

    def __init__(self, vc, name="q"):
        self.vc = vc
        self.loop = vc.install_loop(LL.FakeLoop(vc.real(name + ".now", 0)))
        self.prot, self.sent = SS.gen_sd_protocol(vc, name + ".prot")
        self.ann = self.prot.announcer
        self.timeout = vc.real(name + ".timeout", 0)
        self.prot.timings.SEND_COLLECTION_TIMEOUT = self.timeout
        self.sends = vc.stub(self.prot, "send_sd")
        if vc.bool(name + ".to_multicast"):
            self.R = None
        else:
            self.R = gen_addr(vc, name + ".R")
        # another peer: any other socket address -- possibly the same host with another
        # port, or the same host and port with another scope id
        self.R2 = gen_addr(vc, name + ".R2")
        if self.R is not None:
            vc.assume(self.R != self.R2)
        self.prior = SCFG.gen_entry(vc, name + ".prior_entry", sd_type=vc.choice(name + ".prior_type", (H.SOMEIPSDEntryType.OfferService, H.SOMEIPSDEntryType.SubscribeAck)), resolved=True)
        self.other = SCFG.gen_entry(vc, name + ".other_entry", sd_type=H.SOMEIPSDEntryType.OfferService, resolved=True)
        self.state = vc.choice(name + ".R_queue", ("none", "open", "done"))
        self.col = None
        if self.state != "none":
            self.col = self.mk_collector(name + ".R", self.R, [self.prior], self.state == "done")
        self.col2 = None
        if vc.bool(name + ".R2_open"):
            self.col2 = self.mk_collector(name + ".R2", self.R2, [self.other], False)

    def mk_collector(self, name, remote, data, done):
        """a collector in the state the code itself produces: created `elapsed` ago (so its
        window closes within `timeout` from now), filled through append, and -- for the
        expired one -- closed by its own timer firing (now is then the very instant the
        window closes, or any later one)"""
        vc = self.vc
        elapsed = vc.real(name + ".elapsed", 0)
        vc.assume(elapsed <= self.timeout)
        t_now = self.loop.now
        self.loop.now = t_now - elapsed
        c = SD.SendCollector(self.timeout, self.prot.send_sd, remote=remote)
        self.loop.now = t_now
        # what was queued before: an arbitrary number of entries, then `data` (a replay on the
        # real code starts from a collector that was filled through its own append only)
        if not vc.native:
            c.data = vc.sym_list(name + ".queued_before")
        for d in data:
            c.append(d)
        if done:
            n0 = len(self.sends)
            self.loop.fire(c._handle)  # time is now the collector's deadline
            self.loop.now = self.loop.now + vc.real(name + ".time_since_the_window_closed", 0)
            while len(self.sends) > n0:
                self.sends.pop()  # what the expired collector sent is not part of the obligation
        self.ann.send_queues[remote] = c
        return c


def ob_queue_send(vc):
    """queue_send(entry, remote): with a zero collection timeout the entry is sent at once
    in a message of its own; otherwise it joins the open collector of exactly its
    destination (created if there is none or the last one has expired), behind what was
    queued before, and that collector's window closes no later than timeout from now"""
    w = QWorld(vc)
    entry = SCFG.gen_entry(vc, "entry", sd_type=vc.choice("entry_type", (H.SOMEIPSDEntryType.OfferService, H.SOMEIPSDEntryType.SubscribeAck)), resolved=True)
    n_timers = len(w.loop.timers)
    snap = vc.snapshot(prot=w.prot)
    vc.body(SD.ServiceAnnouncer.queue_send)(w.ann, entry, w.R)
    if w.timeout == 0:
        vc.cover("immediate")
        vc.check_eq(w.sends, [([entry], w.R)], "queue_send.zero_timeout.sent_immediately_alone_to_its_destination")
        vc.check_eq(len(w.loop.timers), n_timers, "queue_send.zero_timeout.arms_nothing")
        check_frame(vc, snap, "queue_send.zero_timeout", ())
        return
    # nobody else is sent anything; the entry either waits in its destination's open
    # collector or has already left in one message of that destination (an early flush is
    # within "no later than the timeout") -- ob_queue_then_timeout shows it is never both
    vc.check_eq(len([1 for s_ in w.sends if s_[1] is not w.R]), 0, "queue_send.nothing_sent_to_other_destinations")
    c = w.ann.send_queues.get(w.R)
    if len(w.sends) > 0:
        vc.cover("flushed-early")
        vc.check_eq(len(w.sends), 1, "queue_send.early_flush_is_one_message")
        vc.check_eq(vc.list_tail(w.sends[0][0]), [w.prior, entry] if w.state == "open" else [entry], "queue_send.early_flush_carries_the_entry_behind_earlier_ones")
        vc.check(c is None or c.done, "queue_send.early_flush_closes_the_collector")
        check_frame(vc, snap, "queue_send", ("prot.announcer.send_queues*",))
        return
    vc.check(c is not None and not c.done, "queue_send.destination_has_an_open_collector")
    if c is None:
        return
    if w.state == "open":
        vc.cover("joined")
        vc.check(c is w.col, "queue_send.open_collector_is_reused")
        vc.check_eq(vc.list_tail(c.data), [w.prior, entry], "queue_send.appended_behind_earlier_entries")
        vc.check_eq(len(w.loop.timers), n_timers, "queue_send.joining_arms_no_timer")
    else:
        vc.cover("created")
        vc.check(c is not w.col and c is not w.col2, "queue_send.new_collector_is_a_new_one")
        if c is w.col or c is w.col2:
            return
        vc.check_eq(list(c.data), [entry], "queue_send.new_collector_holds_the_entry")
        vc.check_eq(len(w.loop.timers), n_timers + 1, "queue_send.new_collector_arms_one_timer")
        vc.check(len(c.kwargs) == 1 and c.kwargs.get("remote") == w.R and c.args == () and c.callback == w.prot.send_sd, "queue_send.collector_sends_to_its_destination")
    h = c._handle
    vc.check(h.callback == c._handle_timeout and not h.cancelled_ and not h.fired, "queue_send.collector_timer_live")
    vc.check(h.when <= w.loop.now + w.timeout, "queue_send.leaves_no_later_than_timeout_after_queueing")
    if w.col2 is not None:
        vc.cover("other-destination")
        vc.check(w.ann.send_queues.get(w.R2) is w.col2 and vc.list_tail(w.col2.data) == [w.other], "queue_send.other_destinations_untouched")
    check_frame(vc, snap, "queue_send", ("prot.announcer.send_queues*",))


def ob_collector_timeout(vc):
    """the window closes: exactly one send_sd with the collected entries in queueing order,
    to the collector's destination; the collector takes no more entries afterwards"""
    w = QWorld(vc)
    vc.assume(w.state == "open")
    snap = vc.snapshot(prot=w.prot, col=w.col)
    fired = w.loop.fire(w.col._handle)
    vc.check(fired, "collector.timer_fires")
    vc.check(w.col.done, "collector.closed_after_timeout")
    vc.check_eq(len(w.sends), 1, "collector.sends_exactly_once")
    if len(w.sends) == 1:
        vc.check_eq(w.sends[0][0], w.col.data, "collector.sends_everything_queued_in_queueing_order")
        vc.check_eq(w.sends[0][1], w.R, "collector.sends_to_its_destination")
    check_frame(vc, snap, "collector.timeout", ("col.done", "prot.announcer.send_queues*"))
    o = vc.outcome(w.col.append, SCFG.gen_entry(vc, "late", sd_type=H.SOMEIPSDEntryType.OfferService, resolved=True))
    vc.check(vc.is_exc(o, RuntimeError), "collector.closed_collector_refuses_entries")
    vc.check(not w.loop.fire(w.col._handle), "collector.fires_at_most_once")


def ob_queue_then_timeout(vc):
    """end to end over the two contracts: an entry queued now is transmitted exactly once,
    with everything queued before it for that destination in front of it"""
    w = QWorld(vc)
    vc.assume(w.timeout != 0)
    if vc.bool("entry_equal_to_one_already_queued"):
        # e.g. offer, stop-offer, offer of one instance within a window: equal entries are
        # separate requests and each is transmitted
        p_ = w.prior
        entry = H.SOMEIPSDEntry(sd_type=p_.sd_type, service_id=p_.service_id, instance_id=p_.instance_id, major_version=p_.major_version, ttl=p_.ttl, minver_or_counter=p_.minver_or_counter, options_1=p_.options_1, options_2=p_.options_2)
    else:
        entry = SCFG.gen_entry(vc, "entry", sd_type=vc.choice("entry_type", (H.SOMEIPSDEntryType.OfferService, H.SOMEIPSDEntryType.SubscribeAck)), resolved=True)
    w.ann.queue_send(entry, w.R)
    c = w.ann.send_queues.get(w.R)
    if c is not None:
        w.loop.fire(c._handle)
    for h in w.loop.live_timers():
        w.loop.fire(h)  # whatever else is still armed fires as well: nothing is sent twice
    n = len([1 for s in w.sends if len(vc.list_tail(s[0])) > 0 and vc.list_tail(s[0])[len(vc.list_tail(s[0])) - 1] is entry])
    vc.check_eq(n, 1, "queued_entry.transmitted_exactly_once_as_the_last_of_its_message")
    vc.check_eq(len([1 for s in w.sends if s[1] is w.R]), 1, "queued_entry.one_message_to_its_destination")
    vc.check_eq(len([1 for s in w.sends if s[1] is not w.R and s[1] is not w.R2]), 0, "queued_entry.nothing_to_anyone_else")


def ob_stop_keeps_queued_entries(vc):
    """requests made while the announcer is being stopped: stop() / connection_lost() do
    not drop what is already queued -- every open collector keeps its entries and its live
    timer, so they are still transmitted when their window closes"""
    w = QWorld(vc)
    w.ann.started = vc.bool("started")
    snap = vc.snapshot(prot=w.prot)
    if vc.bool("via_connection_lost"):
        vc.body(SD.ServiceAnnouncer.connection_lost)(w.ann, None)
    else:
        vc.body(SD.ServiceAnnouncer.stop)(w.ann)
    for c, remote, data in ((w.col, w.R, [w.prior]), (w.col2, w.R2, [w.other])):
        if c is not None and not c.done:
            vc.cover("pending")
            vc.check(w.ann.send_queues.get(remote) is c, "announcer.stop.pending_collector_still_registered")
            vc.check(not c._handle.cancelled_, "announcer.stop.pending_collector_timer_still_live")
            vc.check_eq(vc.list_tail(c.data), data, "announcer.stop.pending_entries_kept")
    vc.check_eq(w.sends, [], "announcer.stop.sends_nothing_immediately_by_itself")
    check_frame(vc, snap, "announcer.stop", ("prot.announcer.started",))


SEND_QUEUE_OBLIGATIONS = [ob_queue_send, ob_collector_timeout, ob_queue_then_timeout, ob_stop_keeps_queued_entries]
