"""C11 -- every unicast Subscribe gets exactly one correct Ack or Nack."""
from contracts import spec_announce as SA
from contracts import spec_config as SCFG
from contracts import spec_sd as SS
from contracts import spec_sdcodec as SC

FUNCTIONS = [
    "someip.sd.ServiceAnnouncer.queue_send",
    "someip.sd.SendCollector.*",
    "someip.sd.ServiceAnnouncer.handle_subscribe",
    "someip.sd.ServiceAnnouncer._send_subscribe_nack",
    "someip.sd.ServiceInstance.handle_subscribe",
    "someip.sd.EventgroupSubscription.from_subscribe_entry",
    "someip.sd.EventgroupSubscription.to_ack_entry",
    "someip.sd.EventgroupSubscription.to_nack_entry",
    "someip.config.Service.matches_subscribe",
    "someip.header.SOMEIPSDEntry.eventgroup_id",
    "someip.header.SOMEIPSDEntry.eventgroup_counter",
    "someip.sd.ServiceDiscoveryProtocol.sd_message_received",
]
ASSUMPTIONS = [
    "premise of the statement: at most one instance matches a given entry (one to three instances in the world, at most one of them claiming the entry; zero matching instances covered by non-matching ids / stopped state)",
    "listener decision: accept or NakSubscription (both explored)",
    "the answer is observed where the announcer queues it (queue_send); its transmission is C15",
]
BOUNDED = SA.BOUNDED
EXPLANATION = "all ids, counters, TTLs, instance states, listener decisions and prior subscription states are symbolic; a Subscribe entry carries arbitrarily many options; one to three instances as in the property's quantifier"
HARNESSES = [
    SCFG.ob_matches_subscribe_refines,
    SC.ob_entry_properties_refine,
    SA.ob_subscription_echo,
    SA.ob_from_subscribe_entry,
    SA.ob_instance_handle_subscribe,
    SA.ob_announcer_handle_subscribe,
    SS.ob_sd_message_dispatch,
] + SA.SEND_QUEUE_OBLIGATIONS  # the answer reaches the wire through queue_send: once, to its destination only
EXPECT_COVERS = {
    "ob_from_subscribe_entry": ["option", "result"],"ob_sd_message_dispatch": ["subscribe"], "ob_announcer_handle_subscribe": ["stop-subscribe", "subscribe"]}
