"""C09 -- TTL expiry fires exactly once, on time, never early; a refresh postpones it."""
from contracts import spec_store as ST

FUNCTIONS = [
    "someip.sd.TimedStore.refresh",
    "someip.sd.TimedStore.stop",
    "someip.sd.TimedStore.stop_all_for_address",
    "someip.sd.TimedStore.stop_all",
    "someip.sd.TimedStore._expired",
]
ASSUMPTIONS = [
    "event-loop model contracts/looplib.py (trusted): call_later arms a timer for now + delay that fires at most once, at its deadline, never if cancelled; call_soon is FIFO",
    "virtual clock: `now` is a symbolic real; the clock-resolution tolerance of the statement is not needed",
    "'exactly once, t seconds after the most recent offer' follows from: refresh arms exactly one live timer for now + ttl and cancels the previous one (ob_refresh), explicit removal cancels it (ob_stop, ob_stop_all*), the store invariant (every live timer belongs to a present entry holding that handle) is preserved by every operation, and a firing timer removes and reports exactly its entry (ob_expired)",
]
BOUNDED = ST.BOUNDED
LEVEL = "proof"
EXPLANATION = "per-operation postconditions and the store invariant are discharged for all keys, addresses, TTLs and times over a store with arbitrarily many entries (lazily materialised contents: what an operation does not touch is untouched by construction, what it iterates over is verified for one arbitrary element by loop contract)"
HARNESSES = ST.STORE_OBLIGATIONS
EXPECT_COVERS = {"ob_refresh": ["forever", "finite", "replaces-timer"], "ob_stop": ["absent", "present"], "ob_stop_all_for_address": ["iteration", "timer", "exit"], "ob_stop_all": ["exit", "entry", "address-done"]}
