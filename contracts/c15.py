"""C15 -- queued SD entries are sent exactly once, in order, to the right peer, in time."""
from contracts import spec_announce as SA

FUNCTIONS = [
    "someip.sd.SendCollector.__init__",
    "someip.sd.SendCollector._handle_timeout",
    "someip.sd.SendCollector.append",
    "someip.sd.ServiceAnnouncer.queue_send",
]
ASSUMPTIONS = [
    "event-loop model contracts/looplib.py (trusted): a timer fires once, at its deadline",
    "send_sd is observed as a call (its encoding and session handling are C02/C08); bursts whose shared option array exceeds 255 options make send_sd fail inside the timer callback -- outside the property's quantifier",
    "history claim (every queued entry is in exactly one collector, collectors are per destination) as one step from an arbitrary queue state; induction over the history is the trusted rule",
]
BOUNDED = []
LEVEL = "proof"
EXPLANATION = "destinations, entries, the collection timeout and the clock are symbolic; an open collector holds arbitrarily many earlier entries (list with symbolic prefix); the queue table is examined for the destination of interest and one arbitrary other destination"
HARNESSES = SA.SEND_QUEUE_OBLIGATIONS
EXPECT_COVERS = {"ob_queue_send": ["immediate", "joined", "created", "other-destination"]}
